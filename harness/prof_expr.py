#!/usr/bin/env python3
"""C02 expressions, C17 built-ins, C18 dates, C19 enums — mostly REPL batch sessions of bare expressions
(the REPL echo shows value and type: REAL always has a fraction or exponent, CHAR/STRING are quoted)."""
import itertools, random, datetime
from core import Case, MARK

BINOPS = ["+", "-", "*", "/", "DIV", "MOD", "&", "=", "<>", "<", "<=", ">", ">=", "AND", "OR"]

def continuation_counts(stdin):
    """number of continuation lines ('. ' prompts) of each REPL entry, from the session's input"""
    from profiles import is_block_start
    L = stdin.split(b"\n")
    if L and L[-1] == b"": L = L[:-1]
    ks = []; i = 0
    while i < len(L):
        line = L[i]; i += 1
        k = 0
        if line not in (b"", b"?", b"EXIT") and not line.startswith(b"RUNFILE") and is_block_start(line):
            while i < len(L):
                k += 1; i += 1
                if L[i - 1] == b"": break
        ks.append(k)
        if line == b"EXIT": break
    return ks

def entry_heads(stdin):
    """first line of each REPL entry (aligned with continuation_counts)"""
    from profiles import is_block_start
    L = stdin.split(b"\n")
    if L and L[-1] == b"": L = L[:-1]
    hs = []; i = 0
    while i < len(L):
        line = L[i]; i += 1
        hs.append(line)
        if line not in (b"", b"?", b"EXIT") and not line.startswith(b"RUNFILE") and is_block_start(line):
            while i < len(L):
                i += 1
                if L[i - 1] == b"": break
        if line == b"EXIT": break
    return hs

def segments(out, stdin=None):
    """REPL stdout -> per-entry output (prompts removed). With the session's stdin the prompts are removed exactly
    (one '> ' and one '. ' per continuation line); without it every leading '> ' / '. ' is removed."""
    segs = out.split(MARK)
    res = []
    ks = continuation_counts(stdin) if stdin is not None else None
    for j, s in enumerate(segs):
        if ks is None:
            while s.startswith(b"> ") or s.startswith(b". "):
                s = s[2:]
        else:
            if s.startswith(b"> "): s = s[2:]
            for _ in range(ks[j] if j < len(ks) else 0):
                if s.startswith(b". "): s = s[2:]
        res.append(s)
    return res

def build(P):
    repl_case, sizes, chunks, rng_for = P["repl_case"], P["sizes"], P["chunks"], P["rng_for"]
    G, render, strlit, charlit = P["G"], P["render"], P["strlit"], P["charlit"]

    SETUP = ["TYPE Col = (Red, Green, Blue)", "TYPE Shape = (Dot, Line)", "TYPE PInt = ^INTEGER", "TYPE PStr = ^STRING",
             "TYPE RecA\nDECLARE f : INTEGER\nENDTYPE", "TYPE RecB\nDECLARE g : STRING\nENDTYPE",
             "DECLARE vi : INTEGER", "DECLARE vr : REAL", "DECLARE vb : BOOLEAN", "DECLARE vc : CHAR", "DECLARE vs : STRING",
             "DECLARE vd : DATE", "DECLARE ve : Col", "DECLARE ve2 : Shape", "DECLARE vp : PInt", "DECLARE vp2 : PStr",
             "DECLARE va : RecA", "DECLARE vb2 : RecB",
             "vi <- 7", "vr <- 2.5", "vb <- TRUE", "vc <- 'q'", "vs <- \"hey\"", "vd <- 14/3/2020", "ve <- Green", "ve2 <- Line", "vp <- ^vi"]
    OPERANDS = {"INTEGER": ["7", "0", "vi", "-3"], "REAL": ["2.5", "vr", "0.0"], "BOOLEAN": ["TRUE", "vb", "FALSE"],
                "CHAR": ["'a'", "vc"], "STRING": ['"ab"', "vs", '""'], "DATE": ["1/2/2003", "vd"], "ENUM": ["Red", "ve"],
                "ENUM2": ["Line", "ve2"], "POINTER": ["vp"], "RECORD": ["va"], "NONE": ["(vi <- 1)"]}

    def cast_matrix():
        srcs = ["0", "1", "- 1", "65", "255", "256", "300", "9223372036854775807", "2.5", "- 2.5", "0.0", "65.9", "1e30", "TRUE", "FALSE", "'a'", "'0'", "' '", "\"\"", "\"a\"", "\"abc\"", "\"12\"",
                "\"2.5\"", "\"TRUE\"", "\"true\"", "\"FALSE\"", "\"1/2/2003\"", "\"31/2/2003\"", "\"x/y/z\"", "1/2/2003", "29/2/2024", "vi", "vr", "vb", "vc", "vs", "vd", "ve", "ve2", "vp", "vp2", "va", "Red",
                "vi + 1", "(vr)", "LENGTH(vs)", "vd = vd"]
        out = []
        for tgt in ["INTEGER", "REAL", "BOOLEAN", "CHAR", "STRING", "DATE"]:
            for sv in srcs:
                out.append("%s(%s)" % (tgt, sv))
                out.append("vs <- \"keep\"")   # the session stays usable after a refused cast
        out += ["INTEGER(REAL(\"7\"))", "STRING(INTEGER(\"12\") + 1)", "CHAR(INTEGER('A') + 1)", "BOOLEAN(STRING(TRUE))", "DATE(STRING(vd))", "STRING(DATE(\"5/6/2007\"))", "INTEGER(vd)", "DATE(INTEGER(vd))"]
        return out

    # ------------------------------------------------------------------ C02
    def c02_cases(tier, seed):
        r = rng_for(seed, "C02")
        # 1. every ordered pair of binary operators, operands chosen so that groupings differ
        ents = []
        pool_q = ["7", "3", "2", "TRUE", "FALSE", '"ab"', "2.5"]
        pool = pool_q if tier == "thorough" else ["7", "3", "2", "TRUE", "FALSE"]
        for o1 in BINOPS:
            for o2 in BINOPS:
                trip = list(itertools.product(pool, repeat=3))
                if tier == "quick": trip = r.sample(trip, 6) + [("7", "3", "2"), ("TRUE", "FALSE", "TRUE"), ("2", "3", "7")]
                for a, b, c in trip:
                    ents.append("%s %s %s %s %s" % (a, o1, b, o2, c))
                ents.append("NOT TRUE %s FALSE %s TRUE" % (o1, o2))
                ents.append("- 7 %s 3 %s - 2" % (o1, o2))
        for k, ch in enumerate(chunks(ents, 400)):
            yield ("operator-pairs", [repl_case("C02-pairs-%d" % k, ch, meta=dict(units=ch))])
        # 1b. value grid: every binary operator on every ordered pair of a small typed value pool (equal INTEGER / REAL values included)
        pool_v = ["0", "1", "2", "- 1", "7", "0.0", "1.0", "2.0", "- 1.0", "1.5", "2.5", "0.5", "TRUE", "FALSE", "'a'", "'b'", "'a'", '"a"', '"ab"', '""', "1/1/2020", "2/1/2020", "31/12/2019"]
        ents = []
        for o in BINOPS:
            for a in pool_v:
                for b in pool_v:
                    ents.append("%s %s %s" % (a, o, b))
        ents = list(dict.fromkeys(ents))
        if tier == "quick":
            keep = [e for e in ents if r.random() < 0.45]
            ents = keep
        for k, ch in enumerate(chunks(ents, 600)):
            yield ("value-grid", [repl_case("C02-grid-%d" % k, ch, meta=dict(units=ch))])
        # 1c. INTEGER exactness above 2^53: neighbours that collapse to one double, on every comparison and every exact operator, also against the
        #     REAL of the same magnitude (an INTEGER/INTEGER operation that detours through REAL is visible only here)
        bigs = ["9007199254740992", "9007199254740993", "9007199254740994", "9223372036854775806", "9223372036854775807", "- 9007199254740993", "- 9223372036854775807",
                "4611686018427387905", "4611686018427387904", "9007199254740992.0", "1", "0"]
        ents = []
        for o in ["=", "<>", "<", "<=", ">", ">=", "+", "-", "*", "DIV", "MOD"]:
            for a in bigs:
                for b in bigs:
                    ents.append("%s %s %s" % (a, o, b))
        ents = list(dict.fromkeys(ents))
        for k, ch in enumerate(chunks(ents, 600)):
            yield ("big-integer-grid", [repl_case("C02-big-%d" % k, ch, meta=dict(units=ch))])
        # 2. DIV / MOD laws on a grid and at the 64-bit boundary
        grid = range(-40, 41) if tier == "thorough" else list(range(-12, 13)) + [-40, 40, 37, -37]
        bnd = [9223372036854775807, 9223372036854775806, 4611686018427387904, 3037000500, 2147483648, 4294967296]
        vals = []
        for a in grid:
            for b in grid:
                vals.append((a, b))
        for a in bnd + [-x for x in bnd] + [0, 1, -1]:
            for b in bnd + [-x for x in bnd] + [1, -1, 2, -2, 3, 7, -7]:
                vals.append((a, b))
        ents = []
        units = []
        for a, b in vals:
            la = ("- %d" % -a) if a < 0 else str(a)
            lb = ("- %d" % -b) if b < 0 else str(b)
            ents += ["%s DIV %s" % (la, lb), "%s MOD %s" % (la, lb)]
        # INT_MIN cannot be written as a literal: build it
        ents += ["(- 9223372036854775807 - 1) DIV - 1", "(- 9223372036854775807 - 1) MOD - 1", "(- 9223372036854775807 - 1) DIV 3",
                 "(- 9223372036854775807 - 1) MOD 3", "DIV(- 7, 2)", "MOD(- 7, 2)", "DIV(7, 0)", "MOD(7, 0)", "7 / 0", "7.5 / 0.0", "7 DIV 0.0", "7.5 MOD 0"]
        for k, ch in enumerate(chunks(ents, 600)):
            yield ("divmod-grid", [repl_case("C02-divmod-%d" % k, ch, meta=dict(units=ch, oracle="divmod"))])
        # 3. (operator, type, type) acceptance matrix
        ents = []
        types = list(OPERANDS)
        for op in BINOPS:
            for t1 in types:
                for t2 in types:
                    a = OPERANDS[t1][0]; b = OPERANDS[t2][-1]
                    ents.append("%s %s %s" % (a, op, b))
                    if tier == "thorough":
                        for a2 in OPERANDS[t1]:
                            for b2 in OPERANDS[t2]:
                                ents.append("%s %s %s" % (a2, op, b2))
        for t1 in types:
            ents.append("NOT %s" % OPERANDS[t1][0]); ents.append("- %s" % OPERANDS[t1][0].replace("-", ""))
        ents = list(dict.fromkeys(ents))
        for k, ch in enumerate(chunks(ents, 500)):
            yield ("type-matrix", [repl_case("C02-types-%d" % k, SETUP + ch, meta=dict(units=ch))])
        # 4. random well-typed trees, minimal and redundant parentheses
        n = sizes(tier, 2500, 40000)
        ents = []
        g = G(rng_for(seed, "C02", 1), max_depth=6, procs=False, records=False, pointers=False, enums=False, arrays=False, err_rate=0.0)
        g.faults = 0
        for nm, ty in [("vi", "INTEGER"), ("vr", "REAL"), ("vb", "BOOLEAN"), ("vc", "CHAR"), ("vs", "STRING"), ("vd", "DATE")]:
            g.env.vars[nm] = ty
        for i in range(n):
            ty = g.r.choice(["INTEGER", "INTEGER", "REAL", "REAL", "BOOLEAN", "BOOLEAN", "STRING", "CHAR"])
            try:
                e = g.expr(ty, g.r.randint(1, 6))
            except RecursionError:
                continue
            if e: ents.append(" ".join(e))
        for k, ch in enumerate(chunks(ents, 500)):
            yield ("random-trees", [repl_case("C02-trees-%d" % k, SETUP + ch, meta=dict(units=ch))])

    def c02_oracle(c, r, m):
        if c.meta.get("oracle") != "divmod": return []
        msgs = []
        segs = segments(r.out)
        ents = c.meta["units"]
        import re
        pat = re.compile(r"^(\(?- ?\d+(?: - 1\))?|\d+) (DIV|MOD) (- ?\d+|\d+)$")
        vals = {}
        for e, s in zip(ents, segs):
            mm = pat.match(e)
            if not mm: continue
            def num(x):
                x = x.replace(" ", "")
                if x.startswith("(-"): return -9223372036854775808
                return int(x)
            a, op, b = num(mm.group(1)), mm.group(2), num(mm.group(3))
            txt = s.decode("latin1").strip()
            if b == 0:
                continue
            try: v = int(txt)
            except ValueError:
                msgs.append("entry %r printed %r instead of an INTEGER" % (e, txt)); continue
            vals[(a, b, op)] = v
        for (a, b, op), q in vals.items():
            if op != "DIV" or (a, b, "MOD") not in vals: continue
            rem = vals[(a, b, "MOD")]
            wrap = lambda x: (x + 2**63) % 2**64 - 2**63
            if wrap(q * b + rem) != a or not abs(rem) < abs(b):
                msgs.append("a=%d b=%d: a DIV b=%d, a MOD b=%d violates a=(a DIV b)*b+(a MOD b), |a MOD b|<|b|" % (a, b, q, rem))
        return msgs[:3]

    C02 = dict(cases=c02_cases, model_is_oracle=("out", "exit", "files", "termination"), oracle=c02_oracle, compare=("out", "diag"),
               rule="bare expressions entered in REPL sessions (echo shows value and type): every ordered operator pair with operand triples, "
                    "DIV/MOD grid and 64-bit boundary values (law checked on the real output by the harness), every (operator, type, type) "
                    "combination, random typed trees to depth 6 with minimal/redundant parentheses; a unit is one entry; non-trivial = distinct entry text "
                    "whose session ran on both sides",
               trusted=["REAL results are compared with the model's, not proved (Float is opaque to the kernel)"],
               assumptions=["signed 64-bit overflow wraps"])

    # ------------------------------------------------------------------ C17
    def c17_cases(tier, seed):
        r = rng_for(seed, "C17")
        alpha = ["a", "Z", "0", " ", ".", "-"]
        maxlen = 4 if tier == "thorough" else 3
        strs = [""]
        for n in range(1, maxlen + 1):
            strs += ["".join(p) for p in itertools.product(alpha, repeat=n)]
        if tier == "quick": strs = r.sample(strs, 60) + ["", "a", "aZ", "a Z0"]
        ents = []
        for s in strs:
            L = len(s)
            lit = strlit(s)
            ents.append("LENGTH(%s)" % lit)
            for n in range(-2, L + 3):
                ents.append("LEFT(%s, %d)" % (lit, n)); ents.append("RIGHT(%s, %d)" % (lit, n))
                if 0 <= n <= L:
                    ents.append("LEFT(%s, %d) & RIGHT(%s, LENGTH(%s) - %d) = %s" % (lit, n, lit, lit, n, lit))
                for i in range(-2, L + 3):
                    ents.append("MID(%s, %d, %d)" % (lit, i, n))
        big = [2147483647, 2147483648, 4294967296, 4294967297, 4294967300, 4294967306, 9223372036854775807, 8589934594]
        for nb in big:
            for sgn in ("", "- "):
                for fn_ in ("LEFT(\"pseudocode\", %s%d)", "RIGHT(\"pseudocode\", %s%d)", "MID(\"pseudocode\", %s%d, 2)", "MID(\"pseudocode\", 2, %s%d)", "CHR(%s%d)", "MID(\"pseudocode\", %s%d, 4294967298)"):
                    ents.append(fn_ % (sgn, nb))
        for k, ch in enumerate(chunks(ents, 800)):
            yield ("substrings", [repl_case("C17-sub-%d" % k, ch, meta=dict(units=ch))])
        # character functions, all 256 codes
        ents = []
        for n in range(256):
            ents += ["ASC(CHR(%d))" % n, "ASC(UCASE(CHR(%d)))" % n, "ASC(LCASE(CHR(%d)))" % n,
                     "ASC(MID(TO_UPPER(\"x\" & CHR(%d)), 2, 1))" % n, "ASC(MID(TO_LOWER(\"x\" & CHR(%d)), 2, 1))" % n]
        ents += ["CHR(%d)" % n for n in (65, 97, 48, 126, 300, -1, 256, 9223372036854775807)]
        for k, ch in enumerate(chunks(ents, 700)):
            yield ("char-codes", [repl_case("C17-chr-%d" % k, ch, meta=dict(units=ch))])
        # conversions: digit / point strings
        dl = 6 if tier == "thorough" else 4
        ds = []
        for n in range(0, dl + 1):
            for p in itertools.product("059.", repeat=n):
                ds.append("".join(p))
        if tier == "quick": ds = r.sample(ds, 250)
        extra = ["abc", "12x", "", " 12", "12 ", "+5", "-5", "1e3", "0x10", "inf", "nan", "1.5.2", ".", "-", "--1", "1,5",
                 "9223372036854775807", "9223372036854775808", "99999999999999999999", "-9223372036854775809", "1e400", "1e-400",
                 "0.000001", "123456.654321", "1" * 30, "0." + "0" * 20 + "1", "\\t5", "5\\n"]
        ents = []
        for s in ds + extra:
            lit = '"' + s + '"'
            ents += ["IS_NUM(%s)" % lit, "STR_TO_NUM(%s)" % lit, "REAL(%s)" % lit, "INTEGER(%s)" % lit]
        # NUM_TO_STR: fractions, whole numbers on both sides of the 32-bit and 53-bit boundaries (REAL and INTEGER arguments), leading point / trailing point numerals
        nts = ["0.5", "1.25", "100.0", "3.141592", "0.000001", "123456.654321", "2.5", "1000000.0", "0.1", "7.0", "0.0", "10.0", "50.0", "1200.0",
               "2147483647.0", "2147483648.0", "2147483649.5", "5000000000.0", "3000000000.0", "4294967296.0", "9007199254740992.0", "1e15", "123456789012.0",
               "2147483647", "2147483648", "5000000000", "9223372036854775807", "10", "0", "100"]
        for x in nts:
            for sg in ("", "- "):
                ents += ["NUM_TO_STR(%s%s)" % (sg, x), "STR_TO_NUM(NUM_TO_STR(%s%s)) = %s%s" % (sg, x, sg, x), "\"[\" & %s%s & \"]\"" % (sg, x)]
        for s_ in [".5", ".25", "5.", "-.5", "+.5", "0.5", ".", "-.", "00.5", ".5e1"]:
            lit = '"' + s_ + '"'
            ents += ["IS_NUM(%s)" % lit, "STR_TO_NUM(%s)" % lit, "REAL(%s)" % lit, "INTEGER(%s)" % lit]
        for x in ["2.7", "-2.7", "-2.0", "0.0", "-0.5", "1e3", "9007199254740993.0", "-9007199254740993.0", "5"]:
            if "e" in x: continue
            ents.append("INT(%s)" % x.replace("-", "- "))
        for k, ch in enumerate(chunks(ents, 700)):
            yield ("conversions", [repl_case("C17-conv-%d" % k, ch, meta=dict(units=ch))])
        # cast matrix: every cast target applied to values of every type (literals, boundary values, variables of the user-defined types)
        for k, ch in enumerate(chunks(cast_matrix(), 400)):
            yield ("cast-matrix", [repl_case("C17-cast-%d" % k, SETUP + ch, meta=dict(units=ch, skip=len(SETUP)))])
        # random longer strings
        ents = []
        for i in range(sizes(tier, 300, 5000)):
            L = r.randint(5, 40)
            s = "".join(r.choice("abcXYZ 0123.,#-_") for _ in range(L))
            lit = strlit(s)
            i1 = r.randint(-1, L + 2); n1 = r.randint(-1, L + 2)
            ents += ["MID(%s, %d, %d)" % (lit, i1, n1), "LEFT(%s, %d)" % (lit, n1), "RIGHT(%s, %d)" % (lit, n1), "TO_UPPER(%s)" % lit, "TO_LOWER(%s)" % lit]
        for k, ch in enumerate(chunks(ents, 700)):
            yield ("random-strings", [repl_case("C17-rnd-%d" % k, ch, meta=dict(units=ch))])
        # RAND range (values masked: model-free)
        nd = sizes(tier, 2000, 100000)
        for bound in [1, 2, 7, 100, 0, -5, 1000000]:
            ch = ["RAND(%d)" % bound if bound >= 0 else "RAND(- %d)" % -bound] * (nd // 7)
            yield ("rand", [repl_case("C17-rand-%d" % bound, ch, meta=dict(units=["RAND(%d)#%d" % (bound, i) for i in range(len(ch))], oracle="rand", bound=bound, compare=("diag",)))])

    def c17_oracle(c, r, m):
        if c.meta.get("oracle") != "rand": return []
        b = c.meta["bound"]
        bad = []
        for s in segments(r.out)[:-1]:
            t = s.decode("latin1").strip()
            try: v = float(t)
            except ValueError:
                bad.append("RAND(%d) printed %r" % (b, t)); continue
            if not (0 <= v <= max(b, 0)):
                bad.append("RAND(%d) = %r outside [0, %d]" % (b, v, max(b, 0)))
        return bad[:3]

    C17 = dict(cases=c17_cases, model_is_oracle=("out", "exit", "files", "termination"), oracle=c17_oracle, compare=("out", "diag"), builds=["normal", "san"],
               rule="built-in calls as REPL entries: all strings up to length 3 (quick) / 4 (thorough) over {a,Z,0,blank,.,-} with every (i,n) in [-2,len+2]^2 "
                    "for LEFT/RIGHT/MID and the LEFT&RIGHT identity, all 256 codes for the character functions, digit/point strings for the conversions plus "
                    "non-numerals, random long strings, RAND draws per bound (range judged by the harness); unit = one entry, non-trivial = distinct entry",
               trusted=["strtol/strtod/printf of libc are modelled (FloatFmt), validated separately against glibc on >250000 strings"])

    # ------------------------------------------------------------------ C18
    def c18_cases(tier, seed):
        r = rng_for(seed, "C18")
        years = [1, 4, 100, 400, 1900, 2000, 2023, 2024, 2100, 9999] if tier == "thorough" else [2000, 2023, 1900]
        rng_dm = range(0, 301) if tier == "thorough" else list(range(0, 34)) + [59, 60, 61, 255, 256, 257, 258, 268, 287, 300]
        ents = []
        for y in years:
            for d in rng_dm:
                for mth in (rng_dm if tier == "thorough" else list(range(0, 15)) + [255, 256, 257, 258, 268]):
                    ents.append("SETDATE(%d, %d, %d)" % (d, mth, y))
                    ents.append("%d/%d/%d" % (d, mth, y))
        ys = range(1, 10000) if tier == "thorough" else list(range(1, 10000, 97)) + [1, 9999]
        for y in ys:
            ents += ["SETDATE(29, 2, %d)" % y, "29/2/%d" % y, "DAY(31/12/%d) * 100 + MONTH(31/12/%d)" % (y, y), "YEAR(1/1/%d)" % y]
        for big in [32767, 32768, 65536 + 2020, 70000, 65537, 4294967296 + 5, 9223372036854775807, 99999]:
            ents += ["SETDATE(1, 1, %d)" % big, "SETDATE(%d, 1, 2020)" % big, "SETDATE(1, %d, 2020)" % big,
                     "1/1/%d" % big, "%d/1/2020" % big, "1/%d/2020" % big, "SETDATE(- %d, 1, 2020)" % big]
        # the documented dd/mm/yyyy spelling: leading zeros in every field (all days x all months, longer zero runs for a few)
        for d in range(0, 33):
            for mth in range(0, 14):
                ents.append("%02d/%02d/%04d" % (d, mth, r.choice([2021, 1999, 800, 64, 2024, 8])))
        for d, mth, y in [(10, 11, 2021), (8, 9, 2021), (31, 10, 2021), (1, 1, 100), (19, 9, 1999), (29, 2, 2024), (29, 2, 2023), (7, 7, 777)]:
            ents += ["0%d/%d/%d" % (d, mth, y), "%d/0%d/%d" % (d, mth, y), "%d/%d/0%d" % (d, mth, y), "00%d/000%d/00%d" % (d, mth, y),
                     "DAY(0%d/0%d/0%d) * 1000000 + MONTH(0%d/0%d/0%d) * 10000 + YEAR(0%d/0%d/0%d)" % ((d, mth, y) * 3),
                     "0%d/0%d/0%d = SETDATE(%d, %d, %d)" % (d, mth, y, d, mth, y)]
        ents += ["SETDATE(1, 1, - 5)", "SETDATE(- 1, 1, 2020)", "SETDATE(1, - 1, 2020)", "99999999999999999999999/1/2020", "1/1/99999999999999999999999"]
        for k, ch in enumerate(chunks(ents, 1000)):
            yield ("validity", [repl_case("C18-valid-%d" % k, ch, meta=dict(units=ch, oracle="valid"))])
        # DAYINDEX against an independent calendar
        d0 = datetime.date(1600, 1, 1); d1 = datetime.date(2400, 12, 31)
        days = (d1 - d0).days
        if tier == "thorough":
            ds = [d0 + datetime.timedelta(n) for n in range(0, days + 1)]
        else:
            ds = [d0 + datetime.timedelta(r.randint(0, days)) for _ in range(3000)] + [d0, d1, datetime.date(1970, 1, 1), datetime.date(2000, 2, 29)]
        ents = ["DAYINDEX(%d/%d/%d)" % (d.day, d.month, d.year) for d in ds]
        for k, ch in enumerate(chunks(ents, 2000)):
            yield ("dayindex", [repl_case("C18-dow-%d" % k, ch, meta=dict(units=ch, oracle="dow"))])
        # comparisons: all ordered pairs of a sample
        ns = 400 if tier == "thorough" else 45
        sample = [d0 + datetime.timedelta(r.randint(0, days)) for _ in range(ns - 6)] + [datetime.date(2020, 1, 31), datetime.date(2020, 2, 1), datetime.date(2019, 12, 31), datetime.date(2020, 1, 1), datetime.date(1999, 12, 31), datetime.date(2000, 1, 1)]
        ents = []
        for a in sample:
            for b in sample:
                op = r.choice(["=", "<>", "<", "<=", ">", ">="]) if tier == "quick" else None
                for o in ([op] if op else ["=", "<>", "<", "<=", ">", ">="]):
                    ents.append("%d/%d/%d %s %d/%d/%d" % (a.day, a.month, a.year, o, b.day, b.month, b.year))
        for k, ch in enumerate(chunks(ents, 3000)):
            yield ("comparisons", [repl_case("C18-cmp-%d" % k, ch, meta=dict(units=ch, oracle="cmp"))])

        # dates that are evaluated more than once or that travel: a literal inside a routine called from several entries (the parsed body is kept), a date in a loop,
        # dates through variables, arrays, record fields, BYVAL / RETURN, a text file and a random file — then components, weekday and every comparison
        sess = []
        for bad in ["30/2/2021", "29/2/2023", "31/4/2020", "0/1/2020", "1/13/2020", "32/1/2020"]:
            sess += ["FUNCTION BadDate() RETURNS DATE\nRETURN %s\nENDFUNCTION" % bad, "BadDate()", "BadDate()", "DAY(BadDate())", "BadDate() = BadDate()",
                     "PROCEDURE ShowBad()\nOUTPUT %s\nENDPROCEDURE" % bad, "CALL ShowBad()", "CALL ShowBad()", "CALL ShowBad()"]
        sess += ["FUNCTION GoodDate() RETURNS DATE\nRETURN 29/2/2024\nENDFUNCTION", "GoodDate()", "GoodDate()", "GoodDate() = 29/2/2024", "DAYINDEX(GoodDate())"]
        yield ("re-evaluation", [repl_case("C18-reeval", sess, meta=dict(units=sess))])
        pairs = [("15/6/2021", "1/1/2001"), ("1/1/2001", "15/6/2021"), ("31/12/1999", "1/1/2000"), ("29/2/2024", "28/2/2024"), ("1/2/2020", "31/1/2020")]
        sess = ["TYPE DRec\nDECLARE d : DATE\nDECLARE k : INTEGER\nENDTYPE", "DECLARE v, w : DATE", "DECLARE arr : ARRAY[1:2] OF DATE", "DECLARE rec, rec2 : DRec",
                "FUNCTION Same(x : DATE) RETURNS DATE\nRETURN x\nENDFUNCTION", "PROCEDURE SetIt(BYREF x : DATE, y : DATE)\nx <- y\nENDPROCEDURE"]
        def probes(e, lit, other):
            out = ["DAY(%s) * 1000000 + MONTH(%s) * 10000 + YEAR(%s)" % (e, e, e), "DAYINDEX(%s)" % e, "%s" % e]
            for o in ["=", "<>", "<", "<=", ">", ">="]:
                out += ["%s %s %s" % (e, o, lit), "%s %s %s" % (e, o, other), "%s %s %s" % (other, o, e)]
            return out
        for n_, (a, b) in enumerate(pairs):
            fn = "c18_%d.dat" % n_
            sess += ["v <- %s" % b, "v <- %s" % a] + probes("v", a, b)
            sess += ["arr[2] <- %s" % b, "arr[2] <- %s" % a] + probes("arr[2]", a, b)
            sess += ["rec.d <- %s" % b, "rec.d <- %s" % a, "rec2 <- rec"] + probes("rec2.d", a, b)
            sess += ["w <- %s" % b, "CALL SetIt(w, %s)" % a] + probes("w", a, b) + probes("Same(%s)" % a, a, b)
            # through a random file: the variable holds the OTHER date before the record is read
            sess += ["OPENFILE \"%s\" FOR RANDOM" % fn, "v <- %s" % a, "PUTRECORD \"%s\", v" % fn, "rec.d <- %s" % a, "SEEK \"%s\", 2" % fn, "PUTRECORD \"%s\", rec" % fn,
                     "v <- %s" % b, "rec.d <- %s" % b, "SEEK \"%s\", 1" % fn, "GETRECORD \"%s\", v" % fn] + probes("v", a, b)
            sess += ["SEEK \"%s\", 2" % fn, "GETRECORD \"%s\", rec" % fn] + probes("rec.d", a, b)
            sess += ["CLOSEFILE \"%s\"" % fn, "OPENFILE \"%s\" FOR RANDOM" % fn, "w <- %s" % b, "GETRECORD \"%s\", w" % fn] + probes("w", a, b) + ["CLOSEFILE \"%s\"" % fn]
            # through a text file
            tf = "c18_%d.txt" % n_
            sess += ["OPENFILE \"%s\" FOR WRITE" % tf, "WRITEFILE \"%s\", %s" % (tf, a), "CLOSEFILE \"%s\"" % tf, "OPENFILE \"%s\" FOR READ" % tf, "w <- %s" % b,
                     "READFILE \"%s\", w" % tf, "CLOSEFILE \"%s\"" % tf] + probes("w", a, b)
        yield ("date-channels", [repl_case("C18-channels", sess, meta=dict(units=sess))])

    def c18_oracle(c, r, m):
        import re
        kind = c.meta.get("oracle")
        segs = segments(r.out)
        ents = c.meta["units"]
        msgs = []
        # map entries to (stdout segment, had error): errors are in r.diags in order; an entry with an error prints "\n" only
        for e, s in zip(ents, segs):
            txt = s.decode("latin1").strip()
            if kind == "valid":
                mm = re.match(r"^SETDATE\((-? ?\d+), (-? ?\d+), (-? ?\d+)\)$", e) or None
                if mm:
                    d, mo, y = [int(x.replace(" ", "")) for x in mm.groups()]
                else:
                    mm = re.match(r"^(\d+)/(\d+)/(\d+)$", e)
                    if not mm: continue
                    d, mo, y = [int(x) for x in mm.groups()]
                if y < 1: continue
                try:
                    datetime.date(y, mo, d); valid = True
                except (ValueError, OverflowError):
                    valid = False
                if y > 9999:
                    # beyond Python's calendar: valid iff Gregorian-valid and within the chrono year range
                    def leap(y): return y % 4 == 0 and (y % 100 != 0 or y % 400 == 0)
                    dim = [31, 29 if leap(y) else 28, 31, 30, 31, 30, 31, 31, 30, 31, 30, 31]
                    valid = 1 <= mo <= 12 and 1 <= d <= dim[mo - 1] and y <= 32767
                if valid and txt != "%d/%d/%d" % (d, mo, y):
                    msgs.append("%s is a valid date but the interpreter printed %r" % (e, txt))
                if not valid and txt != "":
                    msgs.append("%s is not a calendar date but the interpreter yielded %r" % (e, txt))
            elif kind == "dow":
                mm = re.match(r"^DAYINDEX\((\d+)/(\d+)/(\d+)\)$", e)
                d, mo, y = [int(x) for x in mm.groups()]
                exp = (datetime.date(y, mo, d).isoweekday() % 7) + 1
                if txt != str(exp):
                    msgs.append("%s printed %r, the calendar says %d" % (e, txt, exp))
            elif kind == "cmp":
                mm = re.match(r"^(\d+)/(\d+)/(\d+) (\S+) (\d+)/(\d+)/(\d+)$", e)
                a = datetime.date(int(mm.group(3)), int(mm.group(2)), int(mm.group(1)))
                b = datetime.date(int(mm.group(7)), int(mm.group(6)), int(mm.group(5)))
                op = mm.group(4)
                exp = {"=": a == b, "<>": a != b, "<": a < b, "<=": a <= b, ">": a > b, ">=": a >= b}[op]
                if txt != ("TRUE" if exp else "FALSE"):
                    msgs.append("%s printed %r" % (e, txt))
            if len(msgs) >= 3: break
        return msgs

    C18 = dict(cases=c18_cases, oracle=c18_oracle, compare=("out", "diag"),
               rule="SETDATE calls and date literals as REPL entries over the (d,m) square for leap / non-leap / century / 400-year years, every year step for 29/2, "
                    "components up to 2^63 (narrowing), DAYINDEX for dates 1600..2400 against Python's datetime, ordered pairs of a date sample for the six comparisons; "
                    "unit = one entry; non-trivial = distinct entry; judged by the harness with an independent calendar and compared with the model",
               trusted=["libstdc++ <chrono> year_month_day / weekday are modelled (Calendar.lean); the tie is this comparison"])

    # ------------------------------------------------------------------ C19
    def c19_cases(tier, seed):
        r = rng_for(seed, "C19")
        ks = list(range(-40, 41)) if tier == "thorough" else list(range(-9, 10)) + [-40, 40, 17, -17]
        bnd = [9223372036854775807, -9223372036854775807, 9223372036854775806, 4611686018427387904, -4611686018427387904]
        sessions = []
        for n in range(1, 9):
            names = ["N%d_%d" % (n, i) for i in range(n)]
            ents = ["TYPE E%d = (%s)" % (n, ", ".join(names)), "DECLARE e%d : E%d" % (n, n)]
            units = []
            for start in range(n):
                for k in ks + bnd:
                    lk = ("- %d" % -k) if k < 0 else str(k)
                    for form in ["%s + %s" % (names[start], lk), "%s + %s" % (lk, names[start]), "%s - %s" % (names[start], lk)]:
                        ents.append(form); units.append(form)
                    ents.append("e%d <- %s + %s" % (n, names[start], lk)); ents.append("e%d" % n); ents.append("OUTPUT e%d" % n)
                    units.append("e%d <- %s + %s" % (n, names[start], lk))
                ents.append("%s = %s" % (names[start], names[0])); ents.append("%s <> %s" % (names[start], names[-1]))
            sessions.append(repl_case("C19-cycle-%d" % n, ents, meta=dict(units=units, oracle="cycle", n=n, names=names)))
        for s in sessions:
            yield ("cycle", [s])
        # several enumerated types defined in ONE scope (global, and inside a procedure called twice): every name of every type keeps its own position and type
        ents = ["TYPE Ea = (A0, A1)", "TYPE Eb = (B0, B1, B2)", "TYPE Ec = (C0)", "TYPE Ed = (D0, D1, D2, D3)", "DECLARE va : Ea", "DECLARE vb : Eb", "DECLARE vc : Ec", "DECLARE vd : Ed"]
        units = []
        for ty, names, var in [("Ea", ["A0", "A1"], "va"), ("Eb", ["B0", "B1", "B2"], "vb"), ("Ec", ["C0"], "vc"), ("Ed", ["D0", "D1", "D2", "D3"], "vd")]:
            for nm in names:
                for form in [nm, "%s + 1" % nm, "%s - 1" % nm, "%s = %s" % (nm, names[0]), "%s <> %s" % (nm, names[-1])]:
                    ents.append(form); units.append(form)
                ents += ["%s <- %s" % (var, nm), var, "OUTPUT %s" % var]; units.append("%s <- %s" % (var, nm))
        ents += ["PROCEDURE Inner()\nTYPE Level = (I0, I1, I2)\nDECLARE v : Level\nv <- I1\nOUTPUT \"inner \", v, \" \", v + 1, \" \", v + 2\nENDPROCEDURE",
                 "PROCEDURE Outer()\nTYPE Level = (O0, O1)\nDECLARE w : Level\nw <- O1\nCALL Inner()\nOUTPUT \"outer \", w, \" \", w + 1\nENDPROCEDURE", "CALL Outer()", "CALL Inner()", "CALL Outer()",
                 "PROCEDURE Rec(n : INTEGER)\nTYPE Depth = (D_a, D_b, D_c)\nDECLARE d : Depth\nd <- D_a + n\nIF n > 0 THEN\nCALL Rec(n - 1)\nENDIF\nOUTPUT n, \" \", d\nENDPROCEDURE", "CALL Rec(3)"]
        ents += ["PROCEDURE Loc()\nTYPE La = (X0, X1)\nTYPE Lb = (Y0, Y1, Y2)\nDECLARE lb : Lb\nlb <- Y0\nOUTPUT lb, \" \", lb + 1, \" \", Y2, \" \", X1, \" \", B1, \" \", D3\nENDPROCEDURE", "CALL Loc()", "CALL Loc()", "B2", "D0 + 5"]
        yield ("several-types", [repl_case("C19-multi", ents, meta=dict(units=units + ["loc1", "loc2", "nest1", "nest2", "nest3", "rec"], oracle=None))])
        # cross-type stores through every channel
        ents_all = []
        progs = []
        for a in range(1, 5):
            for b in range(1, 5):
                if a == b: continue
                A = ["A%d" % i for i in range(a)]; B = ["B%d" % i for i in range(b)]
                for ch in ["name", "var", "arith", "byval", "return", "elem", "field", "getrecord", "getrecord0", "getrecord-field", "getrecord-elem", "whole-array", "whole-array-field", "byval-array-elem"]:
                    lines = ["TYPE TA = (%s)" % ", ".join(A), "TYPE TB = (%s)" % ", ".join(B), "DECLARE x : TA", "DECLARE y : TB", "y <- %s" % B[-1], "x <- %s" % A[0],
                             "PROCEDURE P(p : TA)", "OUTPUT p", "ENDPROCEDURE", "FUNCTION F() RETURNS TA", "RETURN y", "ENDFUNCTION",
                             "DECLARE arr : ARRAY[1:2] OF TA", "TYPE R", "DECLARE f : TA", "ENDTYPE", "DECLARE rr : R", "OUTPUT \"before \", x"]
                    if ch == "name": lines.append("x <- %s" % B[-1])
                    elif ch == "var": lines.append("x <- y")
                    elif ch == "arith": lines.append("x <- y + 1")
                    elif ch == "byval": lines.append("CALL P(y)")
                    elif ch == "return": lines.append("x <- F()")
                    elif ch == "elem": lines.append("arr[1] <- y")
                    elif ch == "field": lines.append("rr.f <- y + 0")
                    elif ch == "whole-array": lines += ["DECLARE arrb : ARRAY[1:2] OF TB", "arrb[1] <- %s" % B[0], "arrb[2] <- %s" % B[-1], "arr <- arrb"]
                    elif ch == "whole-array-field": lines += ["TYPE HA\nDECLARE m : ARRAY[1:2] OF TA\nENDTYPE", "TYPE HB\nDECLARE m : ARRAY[1:2] OF TB\nENDTYPE", "DECLARE ha : HA", "DECLARE hb : HB", "hb.m[1] <- %s" % B[0], "ha.m <- hb.m"]
                    elif ch == "byval-array-elem": lines += ["DECLARE arrb : ARRAY[1:2] OF TB", "arrb[1] <- %s" % B[0], "CALL P(arrb[1])"]
                    elif ch.startswith("getrecord"):
                        # a TB value stored in a random file and read back into a TA target (variable, record with a TA field, array of TA)
                        src, dst = {"getrecord": ("y", "x"), "getrecord0": ("y", "x"), "getrecord-field": ("rb", "rr"), "getrecord-elem": ("arrb", "arr")}[ch]
                        lines += ["TYPE RB", "DECLARE f : TB", "ENDTYPE", "DECLARE rb : RB", "DECLARE arrb : ARRAY[1:2] OF TB", "rb.f <- %s" % B[0], "arrb[1] <- %s" % B[0], "arrb[2] <- %s" % B[-1]]
                        if ch == "getrecord0": lines.append("y <- %s" % B[0])
                        lines += ["OPENFILE \"c19x.dat\" FOR RANDOM", "PUTRECORD \"c19x.dat\", %s" % src, "SEEK \"c19x.dat\", 1", "GETRECORD \"c19x.dat\", %s" % dst]
                    lines += ["OUTPUT \"after \", x"]
                    progs.append(Case(id="C19-cross-%d-%d-%s" % (a, b, ch), prog=("\n".join(lines) + "\n").encode(), meta=dict(oracle="cross", units=["%d/%d/%s" % (a, b, ch)])))
        yield ("cross-type", progs)
        # procedure-level type definitions, called repeatedly
        progs = []
        for n in range(1, 6):
            names = ["L%d" % i for i in range(n)]
            lines = ["PROCEDURE Q(k : INTEGER)", "TYPE LE = (%s)" % ", ".join(names), "DECLARE v : LE", "v <- %s + k" % names[0], "OUTPUT v", "v <- v - 1", "OUTPUT v", "ENDPROCEDURE"]
            for k in range(-3, 6): lines.append("CALL Q(%d)" % k if k >= 0 else "CALL Q(- %d)" % -k)
            progs.append(Case(id="C19-local-%d" % n, prog=("\n".join(lines) + "\n").encode(), meta=dict(units=["local%d" % n])))
        # a procedure-level enum may not reuse the NAME of a type that is visible globally (types are compared by name: the local values would pass for global ones)
        for kind, head, tail, call in [("proc", "PROCEDURE Inner()", "ENDPROCEDURE", "CALL Inner()"), ("fn", "FUNCTION Inner() RETURNS INTEGER", "RETURN 0\nENDFUNCTION", "d <- Inner()")]:
            for gdef in ["TYPE Colour = (Red, Green, Blue)", "TYPE Colour = ^INTEGER", "TYPE Colour\nDECLARE f : INTEGER\nENDTYPE"]:
                for ldef in ["TYPE Colour = (Low, Medium, High)", "TYPE Colour = (Low)", "TYPE Colour = (Red, Green, Blue)"]:
                    lines = [gdef, "TYPE Other = (Red2, Green2, Blue2)", "DECLARE g : Other", "g <- Green2", head, ldef, "DECLARE l : Colour", "OUTPUT \"inner \", l", tail, call, "OUTPUT \"after \", g", call]
                    progs.append(Case(id="C19-redef-%s-%d" % (kind, len(progs)), prog=("\n".join(lines) + "\n").encode(), meta=dict(units=["redef%d" % len(progs)])))
            lines = ["TYPE Colour = (Red, Green, Blue)", "DECLARE g : Colour", "g <- Green", "PROCEDURE Take(c : Colour)", "OUTPUT \"take \", c", "ENDPROCEDURE", head, "TYPE Colour = (Low, Medium, High)", "DECLARE l : Colour", "l <- Medium", "g <- l", "CALL Take(l)", "OUTPUT g = Medium", tail, call, "OUTPUT \"after \", g"]
            progs.append(Case(id="C19-redef-%s-store" % kind, prog=("\n".join(lines) + "\n").encode(), meta=dict(units=["redefstore" + kind])))
        yield ("procedure-level", progs)

    def c19_oracle(c, r, m):
        import re
        if c.meta.get("oracle") == "cross":
            # the cross-type store must be a runtime error and leave x alone
            if not (r.exit == 1 and r.diags and r.diags[0].kind == "runtime"):
                return ["storing a value of enum TB into a TA target did not end in a runtime error (exit %s, out %r)" % (r.exit, r.out[-80:])]
            if b"after" in r.out: return ["execution continued after the cross-type store"]
            return []
        if c.meta.get("oracle") != "cycle": return []
        names = c.meta["names"]; n = c.meta["n"]
        segs = segments(r.out)
        # reconstruct entries (setup 2 entries first)
        ents = c.stdin.decode("latin1").split("\n")
        msgs = []
        for e, s in zip(ents, segs):
            mm = re.match(r"^(N\d+_(\d+)) ([+-]) (- )?(\d+)$", e)
            if mm:
                idx = int(mm.group(2)); k = int(mm.group(5)) * (-1 if mm.group(4) else 1)
                res = (idx + k) % n if mm.group(3) == "+" else (idx - k) % n
            else:
                mm = re.match(r"^(- )?(\d+) \+ (N\d+_(\d+))$", e)
                if not mm: continue
                idx = int(mm.group(4)); k = int(mm.group(2)) * (-1 if mm.group(1) else 1)
                res = (idx + k) % n
            exp = "E%d: %s" % (n, names[res])
            if s.decode("latin1").strip() != exp:
                msgs.append("%s echoed %r, expected %r" % (e, s.decode("latin1").strip(), exp))
                if len(msgs) >= 3: break
        return msgs

    C19 = dict(cases=c19_cases, model_is_oracle=("out", "exit", "files", "termination"), oracle=c19_oracle, compare=("out", "diag", "exit"), builds=["normal", "san"],
               rule="every enum type with 1..8 names, every start, k in [-40,40] (quick: a subset) and 64-bit boundary k on either side of + and right of -, "
                    "as REPL entries (expected position computed by the harness); every ordered pair of distinct enum sizes 1..4 x 7 store channels as programs "
                    "(must be a runtime error, target unchanged); procedure-level definitions called repeatedly; unit = one arithmetic entry / one program")

    global CAST_MATRIX, CAST_SETUP
    CAST_MATRIX, CAST_SETUP = cast_matrix, SETUP
    return {"C02": C02, "C17": C17, "C18": C18, "C19": C19}
