#!/usr/bin/env python3
"""C03 control flow, C04 calls, C20 pedantic."""
import itertools, random
from core import Case

def build(P):
    repl_case, sizes, chunks, rng_for = P["repl_case"], P["sizes"], P["chunks"], P["rng_for"]
    G, render, strlit, gen_program = P["G"], P["render"], P["strlit"], P["gen_program"]

    # ------------------------------------------------------------------ C03
    def for_expected(a, b, s):
        out = []
        i = a
        while (s < 0 and i >= b) or (s >= 0 and i <= b):
            out.append(i); i += s
            if len(out) > 200: break
        return out, i

    def c03_cases(tier, seed):
        # exhaustive (start, stop, step) cube
        lim = 4 if tier == "thorough" else 3
        progs = []
        for a in range(-lim, lim + 1):
            for b in range(-lim, lim + 1):
                for s in range(-lim, lim + 1):
                    if s == 0: continue
                    f = lambda v: str(v) if v >= 0 else "- %d" % -v
                    lines = ["s <- %s" % f(a), "e <- %s" % f(b), "st <- %s" % f(s),
                             "FOR i <- s TO e STEP st", "OUTPUT i", "s <- 50", "e <- 60", "st <- 7", "NEXT i", "OUTPUT \"end \", i"]
                    its, fin = for_expected(a, b, s)
                    exp = "".join("%d\n" % v for v in its) + "end %d\n" % fin
                    progs.append(Case(id="C03-for-%d-%d-%d" % (a, b, s), prog=("\n".join(lines) + "\n").encode(), meta=dict(expect=exp)))
        for ch in chunks(progs, 400):
            yield ("for-cube", ch)
        # hand-built shapes: break/continue in every loop form, nested; condition types
        shapes = []
        loops = {
            "while": ("c <- 0\nWHILE c < 4 DO\nc <- c + 1\n%s\nOUTPUT \"b\", c\nENDWHILE\nOUTPUT \"end\", c", "WHILE"),
            "repeat": ("c <- 0\nREPEAT\nc <- c + 1\n%s\nOUTPUT \"b\", c\nUNTIL c >= 4\nOUTPUT \"end\", c", "REPEAT"),
            "for": ("FOR c <- 1 TO 4\n%s\nOUTPUT \"b\", c\nNEXT c\nOUTPUT \"end\", c", "FOR"),
        }
        inner = ["", "IF c = 2 THEN\nBREAK\nENDIF", "IF c = 2 THEN\nCONTINUE\nENDIF", "IF c MOD 2 = 0 THEN\nCONTINUE\nENDIF\nIF c = 3 THEN\nBREAK\nENDIF",
                 "CASE OF c\n1 : OUTPUT \"one\"\n2 TO 3 : OUTPUT \"mid\"\nOTHERWISE : OUTPUT \"big\"\nENDCASE"]
        for (ln, (tpl, _)), body in itertools.product(loops.items(), inner):
            shapes.append(tpl % body)
            for (ln2, (tpl2, _)) in loops.items():
                nested = tpl2.replace("c", "d") % "OUTPUT \"in\", d\nIF d = 2 THEN\nBREAK\nENDIF"
                shapes.append(tpl % (body + "\n" + nested))
        for cond in ["1", "\"x\"", "'c'", "1.5", "1/1/2020"]:
            shapes += ["IF %s THEN\nOUTPUT \"no\"\nENDIF\nOUTPUT \"after\"" % cond, "WHILE %s DO\nOUTPUT \"no\"\nENDWHILE" % cond,
                       "REPEAT\nOUTPUT \"once\"\nUNTIL %s" % cond, "IF FALSE THEN\nOUTPUT 1\nELSE IF %s THEN\nOUTPUT 2\nENDIF" % cond]
        for bound in (1, 2, 3, 4):
            shapes += ["c <- 0\nWHILE c < %d DO\nc <- c + 1\nIF c = %d THEN\nCONTINUE\nENDIF\nOUTPUT \"b\", c\nENDWHILE\nOUTPUT \"end\", c" % (bound, bound),
                       "c <- 0\nWHILE c < %d DO\nc <- c + 1\nCONTINUE\nENDWHILE\nOUTPUT \"end\", c" % bound,
                       "c <- 0\nREPEAT\nc <- c + 1\nIF c = %d THEN\nCONTINUE\nENDIF\nOUTPUT \"b\", c\nUNTIL c >= %d\nOUTPUT \"end\", c" % (bound, bound),
                       "FOR c <- 1 TO %d\nIF c = %d THEN\nCONTINUE\nENDIF\nOUTPUT \"b\", c\nNEXT c\nOUTPUT \"end\", c" % (bound, bound),
                       "c <- 0\nd <- 0\nWHILE c < %d DO\nc <- c + 1\nWHILE d < c DO\nd <- d + 1\nIF d = c THEN\nCONTINUE\nENDIF\nOUTPUT \"in\", d\nENDWHILE\nOUTPUT \"out\", c\nENDWHILE" % bound]
        shapes += ["BREAK", "CONTINUE", "IF TRUE THEN\nBREAK\nENDIF\nOUTPUT 1",
                   "PROCEDURE P\nBREAK\nENDPROCEDURE\nFOR i <- 1 TO 3\nCALL P\nOUTPUT i\nNEXT i",
                   "FUNCTION F() RETURNS INTEGER\nCONTINUE\nRETURN 1\nENDFUNCTION\nWHILE TRUE DO\nOUTPUT F()\nBREAK\nENDWHILE",
                   "x <- 5\nIF x > 1 THEN\nOUTPUT \"a\"\nELSE IF x > 2 THEN\nOUTPUT \"b\"\nELSE\nOUTPUT \"c\"\nENDIF",
                   "FUNCTION T(n : INTEGER) RETURNS BOOLEAN\nOUTPUT \"t\", n\nRETURN n > 1\nENDFUNCTION\nIF T(1) THEN\nOUTPUT 1\nELSE IF T(2) THEN\nOUTPUT 2\nELSE IF T(3) THEN\nOUTPUT 3\nENDIF",
                   "x <- 2.0\nCASE OF x\n1 : OUTPUT \"i1\"\n2 : OUTPUT \"i2\"\n1 TO 3 : OUTPUT \"r\"\nENDCASE",
                   "x <- 'b'\nCASE OF x\n'a' : OUTPUT 1\n'b' : OUTPUT 2\n'b' : OUTPUT 3\nOTHERWISE : OUTPUT 4\nENDCASE",
                   "x <- \"k\"\nCASE OF x\n\"j\" : OUTPUT 1\nOTHERWISE : OUTPUT 4\nENDCASE\nOUTPUT 9",
                   "x <- TRUE\nCASE OF x\nFALSE : OUTPUT 1\nTRUE : OUTPUT 2\nENDCASE",
                   "x <- 5\nCASE OF x\n1 TO 4 : OUTPUT 1\n5 TO 5 : OUTPUT 2\n5 : OUTPUT 3\nENDCASE",
                   "x <- 5\nCASE OF x\n\"a\" TO 4 : OUTPUT 1\nENDCASE", "x <- 'a'\nCASE OF x\n1 TO 4 : OUTPUT 1\nOTHERWISE : OUTPUT 0\nENDCASE",
                   "n <- 3\nFOR i <- 1 TO n\nn <- n + 1\nOUTPUT i\nNEXT", "FOR i <- 1 TO 5\ni <- i + 1\nOUTPUT i\nNEXT i\nOUTPUT i",
                   "FOR i <- 1 TO 3 STEP 0\nOUTPUT i\nIF i = 1 THEN\nBREAK\nENDIF\nNEXT", "FOR i <- 1.5 TO 3\nNEXT", "FOR i <- 1 TO \"a\"\nNEXT", "FOR i <- 1 TO 2 STEP TRUE\nNEXT",
                   "DECLARE s : STRING\nFOR s <- 1 TO 2\nNEXT", "FOR i <- 9223372036854775806 TO 9223372036854775807\nOUTPUT i\nIF i < 0 THEN\nBREAK\nENDIF\nNEXT"]
        # start, stop and step are all evaluated before the iterator is assigned; each exactly once
        shapes += ["i <- 10\nFOR i <- 1 TO i - 7\nOUTPUT i\nNEXT i\nOUTPUT \"end \", i", "i <- 2\nFOR i <- 1 TO 9 STEP i\nOUTPUT i\nNEXT i\nOUTPUT \"end \", i",
                   "i <- 10\nFOR i <- i TO i + 2\nOUTPUT i\nNEXT i\nOUTPUT \"end \", i", "i <- 3\nFOR i <- 9 TO i STEP - i\nOUTPUT i\nNEXT i\nOUTPUT \"end \", i",
                   "i <- 5\nFOR i <- 1 TO \"x\"\nOUTPUT i\nNEXT i", "i <- 5\nFOR i <- 1 TO 3 STEP 1.5\nOUTPUT i\nNEXT i",
                   "FUNCTION B(n : INTEGER) RETURNS INTEGER\nOUTPUT \"b\", n\nRETURN n\nENDFUNCTION\nFOR i <- B(1) TO B(3) STEP B(1)\nOUTPUT i\nNEXT i",
                   "k <- 0\nFUNCTION C() RETURNS BOOLEAN\nk <- k + 1\nOUTPUT \"c\", k\nRETURN k >= 3\nENDFUNCTION\nREPEAT\nOUTPUT \"body\"\nUNTIL C()\nWHILE NOT C() DO\nOUTPUT \"never\"\nENDWHILE"]
        # BREAK / CONTINUE reach the innermost LOOP through any selection statement around them (IF, ELSE, CASE clause, OTHERWISE, nested)
        wrappers = {"if": "IF c = 3 THEN\n%s\nENDIF", "else": "IF c <> 3 THEN\nOUTPUT \"n\", c\nELSE\n%s\nENDIF", "case": "CASE OF c\n1 : OUTPUT \"one\"\n3 : %s\nOTHERWISE : OUTPUT \"o\", c\nENDCASE",
                    "otherwise": "CASE OF c\n1 : OUTPUT \"one\"\n2 : OUTPUT \"two\"\nOTHERWISE : %s\nENDCASE", "case-if": "CASE OF c\n3 : IF TRUE THEN\n%s\nENDIF\nOTHERWISE : OUTPUT \"o\", c\nENDCASE",
                    "if-case": "IF c >= 3 THEN\nCASE OF c\n3 TO 4 : %s\nENDCASE\nENDIF", "case-range": "CASE OF c\n2 TO 3 : %s\nENDCASE"}
        loops = {"for": "FOR c <- 1 TO 6\n%s\nOUTPUT \"after \", c\nNEXT c\nOUTPUT \"end \", c",
                 "while": "c <- 0\nWHILE c < 6 DO\nc <- c + 1\n%s\nOUTPUT \"after \", c\nENDWHILE\nOUTPUT \"end \", c",
                 "repeat": "c <- 0\nREPEAT\nc <- c + 1\n%s\nOUTPUT \"after \", c\nUNTIL c >= 6\nOUTPUT \"end \", c",
                 "nested": "FOR o <- 1 TO 2\nc <- 0\nWHILE c < 5 DO\nc <- c + 1\n%s\nOUTPUT \"after \", o, c\nENDWHILE\nOUTPUT \"outer \", o\nNEXT o\nOUTPUT \"end\""}
        for lk, lt in loops.items():
            for wk, wt in wrappers.items():
                for sig in ("BREAK", "CONTINUE"):
                    shapes.append(lt % (wt % sig))
        progs = [Case(id="C03-shape-%d" % i, prog=(s + "\n").encode()) for i, s in enumerate(shapes)]
        yield ("shapes", progs)
        # CASE matrix: every selector value (INTEGER, REAL incl. non-integral and negative, CHAR, STRING, BOOLEAN, DATE, enum) against label lists that mix
        # INTEGER / REAL labels, ranges and overlapping clauses in different orders: exactly the first matching clause runs, OTHERWISE only when none matches
        sel = {"INTEGER": ["- 1", "0", "1", "2", "3", "4", "5"], "REAL": ["- 1.0", "- 0.5", "0.0", "0.5", "1.0", "1.5", "2.0", "2.5", "3.0", "3.5", "4.0", "4.5"],
               "CHAR": ["'a'", "'b'", "'c'", "'d'", "'B'"], "STRING": ['"a"', '"b"', '"ab"', '""'], "BOOLEAN": ["TRUE", "FALSE"], "DATE": ["1/1/2001", "2/1/2001", "1/2/2001"], "Col": ["Red", "Green", "Blue"]}
        labs = {"INTEGER": [["0", "1", "2", "2.5 TO 3.5", "4"], ["0.5", "1.5", "2 TO 3", "- 1 TO - 0.5"], ["1 TO 2", "2 TO 3", "0"], ["3", "1.0", "2.0 TO 2.0"], ["4 TO 1", "2"], ["- 1", "0 TO 0", "1 TO 4.5"]],
                "CHAR": [["'a'", "'b' TO 'c'", "'B'"], ["'c' TO 'a'", "'b'"], ["\"a\"", "'d'"]], "STRING": [['"a"', '"ab"', '""'], ['"a" TO "b"', '"b"'], ["'a'", '"b"']],
                "BOOLEAN": [["TRUE"], ["FALSE", "TRUE"], ["FALSE TO TRUE"]], "DATE": [["1/1/2001", "2/1/2001"], ["1/1/2001 TO 31/1/2001", "1/2/2001"]], "Col": [["Red", "Blue"], ["Red TO Green", "Blue"], ["Green", "Green"]]}
        labs["REAL"] = labs["INTEGER"]
        cm = []
        for ty, vals in sel.items():
            for ll in labs[ty]:
                for with_other in (True, False):
                    L = ["TYPE Col = (Red, Green, Blue)", "DECLARE x : %s" % ty]
                    for v in vals:
                        L += ["x <- %s" % v, "OUTPUT \"sel \", x", "CASE OF x"] + ["%s : OUTPUT \"  clause %d\"" % (lb, k) for k, lb in enumerate(ll)]
                        if with_other: L += ["OTHERWISE : OUTPUT \"  otherwise\""]
                        L += ["ENDCASE"]
                    cm.append("\n".join(L + ["OUTPUT \"end\""]))
        yield ("case-matrix", [Case(id="C03-case-%d" % i, prog=(sp + "\n").encode(), meta=dict(units=["case/%d" % i])) for i, sp in enumerate(cm)])
        # generator
        n = sizes(tier, 1200, 30000)
        cs = []
        for i in range(n):
            g, lines = gen_program(seed, "C03", i, max_depth=4, procs=(i % 3 == 0), records=False, pointers=False, enums=(i % 4 == 0), arrays=(i % 2 == 0), err_rate=0.03)
            cs.append(Case(id="C03-g%d" % i, prog=render(lines), meta=dict(features=sorted(g.features))))
        for ch in chunks(cs, 400):
            yield ("generator", ch)

    def c03_oracle(c, r, m):
        exp = c.meta.get("expect")
        if exp is None: return []
        if r.out.decode("latin1") != exp or r.exit != 0:
            return ["FOR iteration sequence: expected %r, the interpreter printed %r (exit %d)" % (exp, r.out.decode("latin1"), r.exit)]
        return []

    C03 = dict(cases=c03_cases, builds_quick=["normal", "san"], model_is_oracle=("out", "exit", "files", "termination"), oracle=c03_oracle,
               nontrivial=lambda c, r, m: (b"@" in r.out) or ("expect" in c.meta) or c.id.startswith("C03-shape") or c.id.startswith("C03-case"),
               rule="(start,stop,step) cube [-3,3]^3 (quick) / [-4,4]^3 (thorough) with bounds re-assigned in the body, expected sequence computed by the harness; "
                    "hand-built BREAK/CONTINUE/CASE/condition-type shapes in all loop forms, nested; typed generator nesting IF/CASE/WHILE/REPEAT/FOR to depth 4 with "
                    "trace OUTPUTs; non-trivial = distinct program in which a loop body or branch trace ran (or a cube/shape case)")

    # ------------------------------------------------------------------ C04
    def call_matrix():
        """every (routine kind, passing mode, parameter type, argument form) combination: which calls bind, which are refused"""
        out = []
        vals = {"INTEGER": ("5", "6"), "REAL": ("2.5", "3.5"), "STRING": ('"st"', '"uv"'), "CHAR": ("'c'", "'d'"), "BOOLEAN": ("TRUE", "FALSE")}
        one = {"STRING": '"q"'}
        for kind in ("PROCEDURE", "FUNCTION"):
            for mode in ("BYREF", "BYVAL", ""):
                for pt in vals:
                    for at in vals:
                        for form in ("var", "lit", "paren", "expr", "elem", "field", "const"):
                            if form != "var" and at != pt and not (form == "lit" and mode != "BYREF"): continue
                            v1 = one.get(at, vals[at][0]) if (pt == "CHAR" and at == "STRING") else vals[at][0]
                            L = ["DECLARE s : %s" % at, "s <- %s" % v1, "DECLARE arr : ARRAY[1:2] OF %s" % at, "arr[2] <- %s" % v1, "TYPE Rc\nDECLARE f : %s\nENDTYPE" % at, "DECLARE rc : Rc", "rc.f <- %s" % v1, "CONSTANT Kc = %s" % v1]
                            head = "%s P(%s x : %s)" % (kind, mode, pt) + (" RETURNS INTEGER" if kind == "FUNCTION" else "")
                            L += [head, "OUTPUT \"in \", x", "x <- %s" % vals[pt][1], "RETURN 1\nENDFUNCTION" if kind == "FUNCTION" else "ENDPROCEDURE"]
                            arg = {"var": "s", "lit": v1, "paren": "(s)", "expr": {"INTEGER": "s + 0", "REAL": "s * 1.0", "STRING": "s & \"\"", "CHAR": "LCASE(s)", "BOOLEAN": "NOT s"}[at], "elem": "arr[2]", "field": "rc.f", "const": "Kc"}[form]
                            L += ["OUTPUT \"before\"", ("OUTPUT P(%s)" if kind == "FUNCTION" else "CALL P(%s)") % arg, "OUTPUT \"after \", s, \" \", arr[2], \" \", rc.f, \" \", Kc"]
                            out.append("\n".join(L))
        return out

    def c04_cases(tier, seed):
        r = rng_for(seed, "C04")
        shapes = [
            # sticky modes and shared types
            "PROCEDURE P(BYREF a : INTEGER, b : INTEGER, BYVAL c : INTEGER, d : INTEGER)\na <- a + 1\nb <- b + 1\nc <- c + 1\nd <- d + 1\nENDPROCEDURE\nw <- 1\nx <- 1\ny <- 1\nz <- 1\nCALL P(w, x, y, z)\nOUTPUT w, x, y, z",
            "PROCEDURE P(a, b : INTEGER, BYREF c, d : STRING)\na <- 9\nb <- 9\nc <- \"9\"\nd <- \"9\"\nENDPROCEDURE\nw <- 1\nx <- 1\ny <- \"1\"\nz <- \"1\"\nCALL P(w, x, y, z)\nOUTPUT w, x, y, z",
            "PROCEDURE P(BYVAL a : INTEGER, BYREF b : INTEGER, c : INTEGER)\na <- 7\nb <- 7\nc <- 7\nENDPROCEDURE\nx <- 1\ny <- 1\nz <- 1\nCALL P(x, y, z)\nOUTPUT x, y, z",
            "PROCEDURE P(BYREF a : INTEGER, BYREF b : INTEGER, BYVAL c : INTEGER, BYREF d : INTEGER)\na <- 7\nb <- 7\nc <- 7\nd <- 7\nENDPROCEDURE\nw <- 1\nx <- 1\ny <- 1\nz <- 1\nCALL P(w, x, y, z)\nOUTPUT w, x, y, z",
            # byref chain, elements, fields
            "PROCEDURE Inner(BYREF q : INTEGER)\nq <- q * 2\nENDPROCEDURE\nPROCEDURE Outer(BYREF p : INTEGER)\nCALL Inner(p)\nOUTPUT p\nENDPROCEDURE\nx <- 21\nCALL Outer(x)\nOUTPUT x",
            "DECLARE a : ARRAY[1:3] OF INTEGER\nPROCEDURE P(BYREF e : INTEGER)\ne <- e + 5\nOUTPUT a[2]\nENDPROCEDURE\na[2] <- 1\nCALL P(a[2])\nOUTPUT a[1], a[2], a[3]",
            "TYPE R\nDECLARE f : INTEGER\nDECLARE g : STRING\nENDTYPE\nDECLARE r : R\nPROCEDURE P(BYREF e : INTEGER, BYVAL h : STRING)\ne <- 5\nh <- \"z\"\nOUTPUT r.f\nENDPROCEDURE\nr.g <- \"g\"\nCALL P(r.f, r.g)\nOUTPUT r.f, r.g",
            # locals per activation, recursion
            "FUNCTION Fact(n : INTEGER) RETURNS INTEGER\nDECLARE t : INTEGER\nt <- n\nIF n <= 1 THEN\nRETURN 1\nENDIF\nt <- n * Fact(n - 1)\nOUTPUT n, \" \", t\nRETURN t\nENDFUNCTION\nOUTPUT Fact(10)",
            "PROCEDURE Down(n : INTEGER)\nDECLARE loc : INTEGER\nloc <- n * 10\nIF n > 0 THEN\nCALL Down(n - 1)\nENDIF\nOUTPUT loc\nENDPROCEDURE\nCALL Down(50)",
            "FUNCTION Ev(n : INTEGER) RETURNS BOOLEAN\nIF n = 0 THEN\nRETURN TRUE\nENDIF\nRETURN Od(n - 1)\nENDFUNCTION\nFUNCTION Od(n : INTEGER) RETURNS BOOLEAN\nIF n = 0 THEN\nRETURN FALSE\nENDIF\nRETURN Ev(n - 1)\nENDFUNCTION\nOUTPUT Ev(10), Od(7), Ev(7)",
            "PROCEDURE P\nDECLARE hidden : INTEGER\nhidden <- 4\nENDPROCEDURE\nCALL P\nOUTPUT hidden",
            "PROCEDURE P\nDECLARE mine : INTEGER\nmine <- 4\nCALL Q\nENDPROCEDURE\nPROCEDURE Q\nOUTPUT mine\nENDPROCEDURE\nCALL P",
            "g <- 1\nPROCEDURE P\nOUTPUT g\nDECLARE g : INTEGER\ng <- 5\nOUTPUT g\nENDPROCEDURE\nCALL P\nOUTPUT g",
            "g <- 1\nPROCEDURE P\nFOR k <- 1 TO 2\nOUTPUT g\nIF k = 1 THEN\nDECLARE g : INTEGER\ng <- 5\nENDIF\nNEXT k\nENDPROCEDURE\nCALL P\nOUTPUT g",
            "g <- 1\nPROCEDURE P(g : INTEGER)\ng <- g + 1\nOUTPUT g\nENDPROCEDURE\nCALL P(10)\nOUTPUT g",
            # return values and errors
            "FUNCTION F(x : INTEGER) RETURNS REAL\nRETURN x\nENDFUNCTION\nOUTPUT F(3)", "FUNCTION F() RETURNS CHAR\nRETURN \"a\"\nENDFUNCTION\nOUTPUT F()",
            "FUNCTION F() RETURNS INTEGER\nRETURN 1.5\nENDFUNCTION\nOUTPUT F()", "FUNCTION F() RETURNS INTEGER\nOUTPUT 1\nENDFUNCTION\nOUTPUT F()",
            "FUNCTION F(n : INTEGER) RETURNS INTEGER\nFOR i <- 1 TO 10\nIF i = n THEN\nRETURN i * 2\nENDIF\nNEXT i\nRETURN 0\nENDFUNCTION\nOUTPUT F(3), F(20)",
            "RETURN 5", "PROCEDURE P\nRETURN 5\nENDPROCEDURE\nCALL P",
            "PROCEDURE Audit(v : INTEGER)\nOUTPUT v\nRETURN v + 1\nENDPROCEDURE\nFUNCTION Twice(n : INTEGER) RETURNS INTEGER\nCALL Audit(n)\nRETURN n * 2\nENDFUNCTION\nOUTPUT Twice(4)\nOUTPUT \"after\"",
            "PROCEDURE Deep\nRETURN 7\nENDPROCEDURE\nPROCEDURE Mid\nCALL Deep\nOUTPUT \"mid\"\nENDPROCEDURE\nFUNCTION F() RETURNS INTEGER\nCALL Mid\nRETURN 1\nENDFUNCTION\nx <- F()\nOUTPUT x",
            "FUNCTION G() RETURNS STRING\nRETURN \"g\"\nENDFUNCTION\nPROCEDURE P\nOUTPUT G()\nRETURN \"p\"\nENDPROCEDURE\nFUNCTION F() RETURNS STRING\nCALL P\nRETURN \"f\"\nENDFUNCTION\nOUTPUT F()",
            "FUNCTION Inner(n : INTEGER) RETURNS INTEGER\nIF n > 2 THEN\nRETURN 100\nENDIF\nRETURN n\nENDFUNCTION\nFUNCTION Outer(n : INTEGER) RETURNS INTEGER\nDECLARE t : INTEGER\nt <- Inner(n) + Inner(n + 2)\nRETURN t + 1\nENDFUNCTION\nOUTPUT Outer(1), \" \", Outer(5)", "PROCEDURE P(a : INTEGER)\nENDPROCEDURE\nCALL P", "PROCEDURE P(a : INTEGER)\nENDPROCEDURE\nCALL P(1, 2)",
            "PROCEDURE P(a : INTEGER)\nENDPROCEDURE\nCALL P(\"s\")", "PROCEDURE P(BYREF a : INTEGER)\nENDPROCEDURE\nCALL P(1 + 2)", "PROCEDURE P(BYREF a : INTEGER)\nENDPROCEDURE\nCALL P(5)",
            "PROCEDURE P(BYREF a : REAL)\nENDPROCEDURE\nx <- 1\nCALL P(x)", "CALL Nope", "OUTPUT Nope(1)", "FUNCTION F(BYREF a : INTEGER) RETURNS INTEGER\na <- a + 1\nRETURN a\nENDFUNCTION\nx <- 1\nOUTPUT F(x), x\nOUTPUT F(2)",
            "PROCEDURE P(a : INTEGER)\nOUTPUT a\nENDPROCEDURE\nPROCEDURE P(a : INTEGER)\nENDPROCEDURE", "FUNCTION LENGTH(s : STRING) RETURNS INTEGER\nRETURN 1\nENDFUNCTION",
            "DECLARE a : ARRAY[1:2] OF INTEGER\nPROCEDURE P(BYREF x : INTEGER)\nENDPROCEDURE\nCALL P(a)", "PROCEDURE P(x : Unknown)\nENDPROCEDURE",
            "PROCEDURE Deep(n : INTEGER)\nIF n > 0 THEN\nCALL Deep(n - 1)\nELSE\nOUTPUT 1 DIV n\nENDIF\nENDPROCEDURE\nCALL Deep(4)",
            "CONSTANT K = 5\nPROCEDURE P(BYREF a : INTEGER)\na <- 6\nENDPROCEDURE\nCALL P(K)\nOUTPUT K",
            "DECLARE a : ARRAY[1:3] OF INTEGER\nFUNCTION Nx() RETURNS INTEGER\nOUTPUT \"nx\"\nRETURN 2\nENDFUNCTION\nPROCEDURE P(BYREF e : INTEGER)\ne <- 9\nENDPROCEDURE\nCALL P(a[Nx()])\nOUTPUT a[2]",
        ]
        yield ("shapes", [Case(id="C04-shape-%d" % i, prog=(s + "\n").encode()) for i, s in enumerate(shapes)])
        scope_shapes = []
        for kind, head, tail, call in [("proc", "PROCEDURE Run()", "ENDPROCEDURE", "CALL Run()"), ("fn", "FUNCTION Run() RETURNS INTEGER", "RETURN 0\nENDFUNCTION", "OUTPUT Run()")]:
            for decl in ["g <- 100", "DECLARE g : INTEGER\ng <- 100", ""]:
                for inner in ["", "DECLARE g : INTEGER"]:
                    scope_shapes.append("\n".join([decl, "PROCEDURE Show()\nOUTPUT \"show \", g\nENDPROCEDURE" if decl else "PROCEDURE Show()\nOUTPUT \"show\"\nENDPROCEDURE", head, inner, "FOR g <- 1 TO 3", "CALL Show()", "OUTPUT \"loop \", g", "NEXT g", "OUTPUT \"after loop \", g", tail, call, "OUTPUT \"main \", g" if decl else "OUTPUT \"main\""]))
            # WHILE / REPEAT / assignment / INPUT on a global from inside a routine
            scope_shapes.append("\n".join(["g <- 0", head, "WHILE g < 3 DO", "g <- g + 1", "ENDWHILE", "REPEAT", "g <- g + 10", "UNTIL g > 20", "INPUT g", tail, call, "OUTPUT \"main \", g"]))
        yield ("scope-shapes", [Case(id="C04-scope-%d" % i, prog=(sp + "\n").encode(), stdin=b"77\n", meta=dict(units=["scope/%d" % i])) for i, sp in enumerate(scope_shapes)])
        yield ("call-matrix", [Case(id="C04-call-%d" % i, prog=(s + "\n").encode(), meta=dict(units=["call/%d" % i])) for i, s in enumerate(call_matrix())])
        # parameter-list matrix: every spelling of the passing mode (none / BYVAL / BYREF per parameter, so every run structure of sticky modes) for lists of 2..4 parameters,
        # PROCEDURE and FUNCTION, each parameter of its own type (INTEGER, STRING, REAL, a record) or grouped under a shared type; every parameter is modified in the body and
        # the caller's variables are dumped afterwards; arguments of the wrong type for each position are tried as well (a misaligned type list accepts them)
        import itertools as _it
        TY = ["INTEGER", "STRING", "REAL", "Rec"]
        ARGV = {"INTEGER": ("vi%d", "%d"), "STRING": ("vs%d", '"s%d"'), "REAL": ("vr%d", "%d.5"), "Rec": ("vc%d", None)}
        MOD = {"INTEGER": "%s <- %s + 100", "STRING": '%s <- %s & "!"', "REAL": "%s <- %s + 0.25", "Rec": "%s.f <- %s.f + 100"}
        def plist_prog(kind, modes, types, groups):
            """modes[i] in ('', 'BYVAL', 'BYREF'); groups: list of lists of parameter indices sharing one ': type' (consecutive)"""
            k = len(modes)
            L = ["TYPE Rec", "DECLARE f : INTEGER", "DECLARE g : STRING", "ENDTYPE"]
            args = []
            for i in range(k):
                t = types[i]; vn = ARGV[t][0] % i
                L.append("DECLARE %s : %s" % (vn, t))
                L.append(("%s.f <- %d" % (vn, i + 1)) if t == "Rec" else ("%s <- %s" % (vn, ARGV[t][1] % (i + 1))))
                args.append(vn)
            parts = []
            for grp in groups:
                names = []
                for i in grp:
                    names.append((modes[i] + " " if modes[i] else "") + "p%d" % i)
                parts.append(", ".join(names) + " : " + types[grp[0]])
            head = "%s Sub(%s)" % (kind, ", ".join(parts)) + (" RETURNS INTEGER" if kind == "FUNCTION" else "")
            L.append(head)
            for i in range(k):
                L.append(MOD[types[i]] % ("p%d" % i, "p%d" % i))
            L.append("OUTPUT \"proc in\"")
            L += ["RETURN 0", "ENDFUNCTION"] if kind == "FUNCTION" else ["ENDPROCEDURE"]
            L.append(("dummy <- Sub(%s)" if kind == "FUNCTION" else "CALL Sub(%s)") % ", ".join(args))
            for i in range(k):
                L.append(("OUTPUT \"%s=\", %s.f" % (args[i], args[i])) if types[i] == "Rec" else ("OUTPUT \"%s=\", %s" % (args[i], args[i])))
            return "\n".join(L)
        plist = []
        rr = rng_for(seed, "C04plist")
        for kind in ("PROCEDURE", "FUNCTION"):
            for k in (2, 3, 4):
                for modes in _it.product(("", "BYVAL", "BYREF"), repeat=k):
                    types = [rr.choice(TY) for _ in range(k)]
                    plist.append(plist_prog(kind, modes, types, [[i] for i in range(k)]))
            # grouped types: partitions of 3..5 parameters into consecutive groups, a mode keyword possibly inside a group
            for k in (3, 4, 5):
                for cuts in _it.product((0, 1), repeat=k - 1):
                    groups = [[0]]
                    for i, c in enumerate(cuts):
                        if c: groups.append([i + 1])
                        else: groups[-1].append(i + 1)
                    gt = [rr.choice(TY) for _ in groups]
                    types = [None] * k
                    for g_, t in zip(groups, gt):
                        for i in g_: types[i] = t
                    for rep in range(2):
                        modes = [rr.choice(("", "", "BYVAL", "BYREF")) for _ in range(k)]
                        plist.append(plist_prog(kind, modes, types, groups))
        # wrong-typed argument at each position of a grouped list (must be refused: a shifted type list would accept it)
        for kind in ("PROCEDURE", "FUNCTION"):
            for pos in range(4):
                base = ["PROCEDURE Show(a, b : INTEGER, ratio : REAL, label : STRING)" if kind == "PROCEDURE" else "FUNCTION Show(a, b : INTEGER, ratio : REAL, label : STRING) RETURNS INTEGER",
                        "OUTPUT \"proc \", a, \" \", b, \" \", ratio, \" \", label"] + (["RETURN 1", "ENDFUNCTION"] if kind == "FUNCTION" else ["ENDPROCEDURE"])
                good = ["1", "2", "0.5", '"lbl"']; bad = ['"x"', '"y"', '"z"', "4.5"]
                a = list(good); a[pos] = bad[pos]
                call = ", ".join(a)
                plist.append("\n".join(base + [("d <- Show(%s)" if kind == "FUNCTION" else "CALL Show(%s)") % call, "OUTPUT \"after\""]))
                plist.append("\n".join(base + [("d <- Show(%s)" if kind == "FUNCTION" else "CALL Show(%s)") % ", ".join(good), "OUTPUT \"after\""]))
        # the empty string is not a character: BYVAL CHAR parameter, RETURNS CHAR, both routine kinds; the lookup of a free name in a callee goes to the GLOBAL scope, not to the caller's
        for argv in ['""', '"ab"', '"a"', "'a'"]:
            plist.append("\n".join(["PROCEDURE ShowC(c : CHAR)", "OUTPUT \"proc code \", ASC(c)", "ENDPROCEDURE", "CALL ShowC(%s)" % argv, "OUTPUT \"end\""]))
            plist.append("\n".join(["FUNCTION CodeOf(c : CHAR) RETURNS INTEGER", "RETURN ASC(c)", "ENDFUNCTION", "OUTPUT \"fn \", CodeOf(%s)" % argv, "OUTPUT \"end\""]))
            plist.append("\n".join(["FUNCTION Mk() RETURNS CHAR", "RETURN %s" % argv, "ENDFUNCTION", "OUTPUT \"fn \", ASC(Mk())", "OUTPUT \"end\""]))
            plist.append("\n".join(["DECLARE s : STRING", "s <- %s" % (argv if argv[0] == '"' else '"z"'), "PROCEDURE ShowC(c : CHAR)", "OUTPUT \"proc code \", ASC(c)", "ENDPROCEDURE", "CALL ShowC(s)", "OUTPUT \"end\""]))
        for gdecl in ["g <- 100", "CONSTANT g = 100", "DECLARE g : ARRAY[1:2] OF INTEGER\ng[1] <- 100"]:
            gref = "g[1]" if "ARRAY" in gdecl else "g"
            plist.append("\n".join([gdecl, "PROCEDURE Callee()", "OUTPUT \"proc callee sees \", %s" % gref, "ENDPROCEDURE", "PROCEDURE Caller()", "DECLARE g : INTEGER", "g <- 5", "CALL Callee()", "OUTPUT \"caller \", g", "ENDPROCEDURE", "CALL Caller()",
                                     "FUNCTION Peek() RETURNS INTEGER", "RETURN %s" % gref, "ENDFUNCTION", "PROCEDURE Caller2(g : INTEGER)", "OUTPUT \"proc peek \", Peek(), \" \", g", "ENDPROCEDURE", "CALL Caller2(7)"]))
        # local arrays / records shadowing global ones
        for kind, head, tail, call in [("proc", "PROCEDURE Run()", "ENDPROCEDURE", "CALL Run()"), ("fn", "FUNCTION Run() RETURNS INTEGER", "RETURN 0\nENDFUNCTION", "d <- Run()")]:
            plist.append("\n".join(["DECLARE g : ARRAY[1:3] OF INTEGER", "g[2] <- 7", head, "DECLARE g : ARRAY[1:2] OF STRING", "g[2] <- \"local\"", "OUTPUT \"proc \", g[2]", tail, call, call, "OUTPUT g[2]"]))
            plist.append("\n".join(["DECLARE g : ARRAY[1:3] OF INTEGER", "g[2] <- 7", head, "DECLARE g : INTEGER", "g <- 5", "OUTPUT \"proc \", g", tail, call, "OUTPUT g[2]"]))
            plist.append("\n".join(["g <- 7", head, "DECLARE g : ARRAY[1:2] OF INTEGER", "g[1] <- 5", "OUTPUT \"proc \", g[1]", tail, call, "OUTPUT g"]))
            plist.append("\n".join(["TYPE Rec", "DECLARE f : INTEGER", "ENDTYPE", "DECLARE g : Rec", "g.f <- 7", head, "DECLARE g : Rec", "g.f <- 5", "OUTPUT \"proc \", g.f", tail, call, "OUTPUT g.f"]))
        plist = list(dict.fromkeys(plist))
        pcases = [Case(id="C04-plist-%d" % i_, prog=(p_ + "\n").encode(), meta=dict(units=["plist/%d" % i_])) for i_, p_ in enumerate(plist)]
        for ch in chunks(pcases, 400):
            yield ("parameter-lists", ch)
        n = sizes(tier, 1200, 30000)
        cs = []
        for i in range(n):
            g, lines = gen_program(seed, "C04", i, max_depth=2, procs=True, loops=True, err_rate=0.02)
            cs.append(Case(id="C04-g%d" % i, prog=render(lines), meta=dict(features=sorted(g.features))))
        for ch in chunks(cs, 400):
            yield ("generator", ch)

    C04 = dict(cases=c04_cases, builds_quick=["normal", "san"], model_is_oracle=("out", "exit", "files", "termination"), nontrivial=lambda c, r, m: b"proc " in r.out or b"fn " in r.out or c.id.startswith("C04-shape") or c.id.startswith("C04-call") or c.id.startswith("C04-scope"),
               rule="every (PROCEDURE/FUNCTION, BYREF/BYVAL/default, parameter type, argument type, argument form: variable, literal, parenthesised, computed, element, field, constant) call; hand-built shapes for sticky BYREF/BYVAL and shared-type parameter lists, BYREF chains / elements / fields, recursion to depth 50, shadowing, "
                    "call errors; typed generator with up to 4 procedures/functions whose bodies and call sites are random; caller state dumped at the end; "
                    "non-trivial = distinct program in which a procedure or function body ran (trace tag)",
               trusted=["the per-node resolver cache and reference Variables have no counterpart in the model (names are looked up each time); covered by the correspondence only"])

    # ------------------------------------------------------------------ C20
    PED_INSERT = {
        "break": (["FOR zq <- 1 TO 1", "BREAK", "NEXT zq"], "lex", "pedBreak"),
        "continue": (["FOR zq <- 1 TO 1", "CONTINUE", "NEXT zq"], "lex", "pedContinue"),
        "elseif": (["IF FALSE THEN", "OUTPUT 0", "ELSE IF TRUE THEN", "OUTPUT 0", "ENDIF"], "parse", "pedElseIf"),
        "cast": (["OUTPUT INTEGER ( \"12\" )"], "parse", "pedCast"),
        "assign": (["undeclared_zq <- 1"], "run", "pedAssign"),
        "input": (["INPUT undeclared_zr"], "run", "pedInput"),
    }

    def pedantic_clean(seed, i):
        # declared variables only, no BREAK/CONTINUE/ELSE IF/casts
        r = rng_for(seed, "C20", i)
        g = G(r, max_depth=3, procs=(i % 2 == 0), err_rate=0.02)
        g.pedantic = True
        return g

    def c20_cases(tier, seed):
        n = sizes(tier, 500, 15000)
        cs = []
        for i in range(n):
            g = pedantic_clean(seed, i)
            try:
                lines = g.program()
            except (RecursionError, KeyError, IndexError, TypeError, ValueError):
                continue
            lines = make_pedantic_clean(lines)
            prog = render(lines)
            for flag in (False, "-p", "--pedantic"):
                cs.append(Case(id="C20-clean-%d-%s" % (i, flag), prog=prog, ped=flag, stdin=b"5\nabc\n", meta=dict(pair=i, kind="clean")))
            # one inserted construct at a random statement boundary (top level only: after a complete top-level statement)
            kind = list(PED_INSERT)[i % len(PED_INSERT)]
            ins, when, msg = PED_INSERT[kind]
            tops = top_level_positions(lines)
            pos = g.r.choice(tops) if tops else len(lines)
            mut = lines[:pos] + [x.split(" ") for x in ins] + lines[pos:]
            cs.append(Case(id="C20-ins-%d-%s" % (i, kind), prog=render(mut), ped="-p", stdin=b"5\nabc\n",
                           meta=dict(kind="insert", construct=kind, when=when, msg=msg, pair=i, prefix=render(lines[:pos]).decode("latin1"))))
            cs.append(Case(id="C20-insn-%d-%s" % (i, kind), prog=render(mut), ped=False, stdin=b"5\nabc\n", meta=dict(kind="insert-nonped")))
        for ch in chunks(cs, 500):
            yield ("generator", ch)
        # statement forms a pedantic-clean program may contain besides the generator's: bare expressions and calls used as statements (their value is
        # discarded in a program file, with or without the option), every declaration form, file statements, INPUT into declared variables
        forms = [
            "DECLARE total : INTEGER\nDECLARE name : STRING\nFUNCTION Bump(BYREF n : INTEGER) RETURNS INTEGER\nn <- n + 1\nRETURN n\nENDFUNCTION\ntotal <- 0\nname <- \"abc\"\nFOR i <- 1 TO 3\nBump(total)\nNEXT i\nLENGTH(name)\ntotal * 2\ntotal\nname\n\"lit\"\n'c'\n2.5\nTRUE\n1/2/2003\nOUTPUT \"total = \", total",
            "TYPE Col = (Red, Green)\nTYPE PI = ^INTEGER\nTYPE R\nDECLARE f : INTEGER\nENDTYPE\nDECLARE c : Col\nDECLARE p : PI\nDECLARE r : R\nDECLARE x : INTEGER\nc <- Green\np <- ^x\nr.f <- 4\nc\np\nr\nr.f\np^\nRed\nc = Green\nOUTPUT c, \" \", r.f",
            "DECLARE a : ARRAY[1:3] OF INTEGER\nCONSTANT K = 5\na[2] <- K\na[2]\nK\nK + a[2]\nOUTPUT a[2]",
            "DECLARE s : STRING\nDECLARE n : INTEGER\nINPUT n\nINPUT s\nn\ns\nOUTPUT n, s",
            "DECLARE line : STRING\nOPENFILE \"pf.txt\" FOR WRITE\nWRITEFILE \"pf.txt\", 12\nCLOSEFILE \"pf.txt\"\nOPENFILE \"pf.txt\" FOR READ\nEOF(\"pf.txt\")\nREADFILE \"pf.txt\", line\nEOF(\"pf.txt\")\nCLOSEFILE \"pf.txt\"\nOUTPUT line",
            "PROCEDURE P(v : INTEGER)\nv + 1\nOUTPUT v\nENDPROCEDURE\nFUNCTION F(v : INTEGER) RETURNS INTEGER\nv * 2\nRETURN v * 2\nENDFUNCTION\nCALL P(3)\nF(4)\nOUTPUT F(5)",
            "DECLARE k : INTEGER\nk <- 0\nWHILE k < 3 DO\nk <- k + 1\nk\nENDWHILE\nREPEAT\nk <- k - 1\nk * k\nUNTIL k = 0\nCASE OF k\n0 : k + 1\nOTHERWISE : k + 2\nENDCASE\nIF k = 0 THEN\nk\nELSE\nk + 1\nENDIF\nOUTPUT \"done \", k",
        ]
        forms += [
            "OPENFILE \"pg.txt\" FOR WRITE\nWRITEFILE \"pg.txt\", \"l1\"\nCLOSEFILE \"pg.txt\"\nOPENFILE \"pg.txt\" FOR READ\nREADFILE \"pg.txt\", undeclaredLine\nCLOSEFILE \"pg.txt\"\nOUTPUT undeclaredLine",
            "FOR undeclaredIt <- 1 TO 3\nOUTPUT undeclaredIt\nNEXT undeclaredIt\nOUTPUT undeclaredIt",
            "CONSTANT K = 4\nCONSTANT S = \"s\"\nDECLARE a : ARRAY[1:K] OF INTEGER\na[K] <- K\nOUTPUT a[K], S",
            "TYPE T = (P, Q)\nDECLARE t : T\nDECLARE r : REAL\nt <- Q\nr <- 1\nOUTPUT t, \" \", r\nDECLARE c : CHAR\nc <- \"x\"\nOUTPUT c",
            "DECLARE d : DATE\nd <- 1/2/2003\nOUTPUT DAY(d), MONTH(d), YEAR(d)\nDECLARE s : STRING\ns <- 'c'\nOUTPUT s & \"!\"",
        ]
        # every expression position of a writing statement holds a call with a visible side effect (OUTPUT + a global counter): each is evaluated
        # exactly once with and without the option (target indices of <-, INPUT, READFILE; values; 2-D and record-array targets; BYREF arguments)
        tick = "DECLARE Count : INTEGER\nCount <- 0\nFUNCTION Tick() RETURNS INTEGER\nCount <- Count + 1\nOUTPUT \"tick \", Count\nRETURN Count\nENDFUNCTION\n"
        forms += [
            tick + "DECLARE a : ARRAY[1:6] OF INTEGER\na[Tick()] <- 10\na[Tick()] <- 20\na[Tick() + 1] <- Tick()\nOUTPUT Count\nFOR i <- 1 TO 6\nOUTPUT a[i]\nNEXT i",
            tick + "DECLARE m : ARRAY[1:4, 1:4] OF INTEGER\nm[Tick(), Tick()] <- 7\nm[Tick(), 1] <- m[1, Tick() - 2]\nOUTPUT Count, \" \", m[1, 2], \" \", m[3, 1]",
            tick + "TYPE R\nDECLARE f : INTEGER\nDECLARE g : ARRAY[1:5] OF INTEGER\nENDTYPE\nDECLARE rs : ARRAY[1:5] OF R\nrs[Tick()].f <- 3\nrs[Tick()].g[Tick()] <- 4\nOUTPUT Count, \" \", rs[1].f, \" \", rs[2].g[3]",
            tick + "DECLARE a : ARRAY[1:6] OF INTEGER\nDECLARE s : ARRAY[1:6] OF STRING\nINPUT a[Tick()]\nINPUT s[Tick()]\nOUTPUT Count, \" \", a[1], \" \", s[2]",
            tick + "DECLARE s : ARRAY[1:6] OF STRING\nOPENFILE \"ph.txt\" FOR WRITE\nWRITEFILE \"ph.txt\", Tick()\nCLOSEFILE \"ph.txt\"\nOPENFILE \"ph.txt\" FOR READ\nREADFILE \"ph.txt\", s[Tick()]\nCLOSEFILE \"ph.txt\"\nOUTPUT Count, \" \", s[2]",
            tick + "DECLARE a : ARRAY[1:6] OF INTEGER\nPROCEDURE Set(BYREF x : INTEGER, v : INTEGER)\nx <- v\nENDPROCEDURE\nCALL Set(a[Tick()], Tick())\nCALL Set(a[Tick()], 9)\nOUTPUT Count, \" \", a[1], \" \", a[3]",
            tick + "TYPE PI = ^INTEGER\nDECLARE a : ARRAY[1:6] OF INTEGER\nDECLARE p : PI\np <- ^a[Tick()]\np^ <- Tick()\nOUTPUT Count, \" \", a[1]",
            tick + "DECLARE x : INTEGER\nx <- Tick()\nIF Tick() = 2 THEN\nx <- x + Tick()\nENDIF\nWHILE Tick() < 6 DO\nx <- x + 1\nENDWHILE\nFOR j <- Tick() TO Tick() STEP Tick() - 8\nx <- x + j\nNEXT j\nCASE OF Tick()\n10 : x <- x + 100\nOTHERWISE : x <- 0\nENDCASE\nOUTPUT Count, \" \", x",
        ]
        fcs = []
        for fi, prog_text in enumerate(forms):
            for flag in (False, "-p", "--pedantic"):
                fcs.append(Case(id="C20-form-%d-%s" % (fi, flag), prog=(prog_text + "\n").encode(), ped=flag, stdin=b"5\nabc\n", meta=dict(pair="form%d" % fi, kind="clean")))
        yield ("statement-forms", fcs)
        # argument handling
        yield ("args", [Case(id="C20-args-%s" % f, prog=b"OUTPUT 1\nBREAK\n", ped=f, meta=dict(kind="args")) for f in (False, "-p", "--pedantic")])

    def make_pedantic_clean(lines):
        out = []
        declared = set()
        i = 0
        res = []
        for ln in lines:
            if ln[:2] == ["ELSE", "IF"]:
                # rewrite ELSE IF c THEN ... as a nested IF is not line-local; simply turn it into ELSE + IF ... and remember to close it
                res.append(["ELSE"]); res.append(["IF"] + ln[2:]); res.append(["__close__"])
                continue
            res.append(ln)
        # close nested IFs: each __close__ marker adds one ENDIF before the matching ENDIF of the chain
        out = []
        stack = []
        for ln in res:
            if ln == ["__close__"]:
                stack[-1] = 1; continue
            if ln[0] == "IF": stack.append(0)
            if ln == ["ENDIF"]:
                k = 0
                while stack and stack[-1] == 1:
                    stack.pop(); k += 1
                if stack: stack.pop()
                for _ in range(k): out.append(["ENDIF"])
            out.append(ln)
        res = out
        # BREAK / CONTINUE lines -> harmless output; undeclared first assignments -> declared up front is hard, so drop `x <- e` creating statements by declaring loop counters
        pre = []
        seen = set()
        out = []
        for ln in res:
            if ln in (["BREAK"], ["CONTINUE"]):
                out.append(["OUTPUT", '"bc"']); continue
            out.append(ln)
        # declare every variable that is first assigned without DECLARE (loop counters wc/rc, FOR iterators are auto-declared by FOR: allowed)
        names = []
        declared = set()
        for ln in out:
            if ln[0] == "DECLARE": declared.add(ln[1])
            if ln[0] == "CONSTANT": declared.add(ln[1])
            if len(ln) >= 3 and ln[1] == "<-" and ln[0] not in declared and ln[0] not in names and ln[0].isidentifier():
                names.append(ln[0])
        # procedures' bodies run in their own scope: declare inside would be needed; the generator's counters inside routines are
        # handled by declaring them at the routine's start
        final = []
        depth_names = []
        i = 0
        body_names = set()
        for idx, ln in enumerate(out):
            final.append(ln)
            if ln[0] in ("PROCEDURE", "FUNCTION"):
                # collect counters assigned inside this routine
                j = idx + 1
                loc = []
                while j < len(out) and out[j][0] not in ("ENDPROCEDURE", "ENDFUNCTION"):
                    l2 = out[j]
                    if len(l2) >= 3 and l2[1] == "<-" and l2[0] in names and l2[0] not in loc: loc.append(l2[0])
                    j += 1
                for nm in loc:
                    final.append(["DECLARE", nm, ":", "INTEGER"]); body_names.add(nm)
        glob = [nm for nm in names if nm not in body_names]
        return [["DECLARE", nm, ":", "INTEGER"] for nm in glob] + final

    def top_level_positions(lines):
        pos = []
        depth = 0
        opens = {"IF", "WHILE", "REPEAT", "FOR", "CASE", "PROCEDURE", "FUNCTION", "TYPE"}
        closes = {"ENDIF", "ENDWHILE", "UNTIL", "NEXT", "ENDCASE", "ENDPROCEDURE", "ENDFUNCTION", "ENDTYPE"}
        for i, ln in enumerate(lines):
            if depth == 0: pos.append(i)
            if ln[0] in opens and not (ln[0] == "TYPE" and "=" in ln): depth += 1
            if ln[0] in closes: depth -= 1
        pos.append(len(lines))
        return pos

    NAMES = {"break": ["break"], "continue": ["continue"], "elseif": ["else if", "elseif", "else-if"], "cast": ["cast"],
             "assign": ["assign", "undeclared", "undefined", "declar"], "input": ["input", "undeclared", "undefined", "declar"]}
    def names_construct(construct, text):
        t = text.lower()
        return any(w in t for w in NAMES[construct])

    c20_memo = {}
    def c20_oracle(c, r, m):
        k = c.meta.get("kind")
        msgs = []
        if k == "clean":
            key = c.meta["pair"]
            sig = (r.out, r.exit, [d.canon() for d in r.diags], sorted(r.files.items()))
            if c.ped is False:
                c20_memo[key] = sig
            else:
                base = c20_memo.get(key)
                if base is not None and base != sig:
                    if any(d.kind == "pedantic" for d in r.diags):
                        msgs.append("a program without pedantic constructs was rejected under %s" % c.ped)
                    else:
                        msgs.append("behaviour differs with %s: stdout/exit/diagnostics/files %r vs %r" % (c.ped, base[:2], sig[:2]))
        elif k == "insert":
            base = c20_memo.get(c.meta.get("pair"))
            if c.meta["when"] == "run" and (base is None or base[1] != 0):
                return []     # the program itself fails before it could reach the inserted statement
            if not (r.exit == 1 and len(r.diags) == 1 and r.diags[0].kind == "pedantic"):
                msgs.append("inserted %s: expected exactly one pedantic error, got exit %d, diagnostics %r" % (c.meta["construct"], r.exit, [d.kind for d in r.diags]))
            elif not names_construct(c.meta["construct"], r.diags[0].text):
                msgs.append("pedantic error does not name the construct %s: %r" % (c.meta["construct"], r.diags[0].text))
            elif c.meta["when"] in ("lex", "parse"):
                import core
                if core.canon_out(r.out).replace(b"\n", b"") .startswith(b"\x1fW") is False and r.out.strip(b"\n") != b"" and not r.out.startswith(b"Warning"):
                    msgs.append("output %r before a lex/parse-time pedantic rejection" % r.out[:80])
        elif k == "args":
            if c.ped and not (r.exit == 1 and r.diags and r.diags[0].kind == "pedantic"):
                msgs.append("%s prog.pseudo did not run the file in pedantic mode" % c.ped)
        return msgs

    C20 = dict(cases=c20_cases, oracle=c20_oracle,
               nontrivial=lambda c, r, m: True,
               rule="generator programs rewritten to the pedantic-clean subset, each run without option, with -p and with --pedantic (stdout, exit, diagnostics, files "
                    "must be identical: judged on the real interpreter alone and against the model); the same programs with exactly one non-pedantic construct inserted at "
                    "a random top-level position (must give exactly one pedantic error naming it; nothing printed for lex/parse-time constructs; model gives the prefix output "
                    "for run-time ones); non-trivial = distinct (program, option) case")

    global CALL_MATRIX
    CALL_MATRIX = call_matrix
    return {"C03": C03, "C04": C04, "C20": C20}
