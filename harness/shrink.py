#!/usr/bin/env python3
"""delta debugging on program lines (then on stdin lines)"""
import copy

def ddmin(items, test, max_tests=400):
    n = 2
    tests = 0
    while len(items) >= 2 and tests < max_tests:
        chunk = max(1, len(items) // n)
        reduced = False
        for i in range(0, len(items), chunk):
            cand = items[:i] + items[i + chunk:]
            tests += 1
            if cand and test(cand):
                items = cand; n = max(n - 1, 2); reduced = True
                break
            if tests >= max_tests: break
        if not reduced:
            if chunk == 1: break
            n = min(n * 2, len(items))
    return items

def shrink_case(case, still_fails, max_tests=300):
    """case.prog shrunk line-wise while still_fails(case) holds"""
    if case.mode == "repl":
        lines = case.stdin.split(b"\n")
        def testr(ls):
            c = copy.copy(case); c.stdin = b"\n".join(ls); c.meta = dict(case.meta); c.meta.pop("units", None)
            try: return still_fails(c)
            except Exception: return False
        if not testr(lines): return case
        ls = ddmin(lines, testr, max_tests)
        c = copy.copy(case); c.stdin = b"\n".join(ls)
        return c
    lines = case.prog.split(b"\n")
    def test(ls):
        c = copy.copy(case); c.prog = b"\n".join(ls)
        try: return still_fails(c)
        except Exception: return False
    if not test(lines): return case
    ls = ddmin(lines, test, max_tests)
    c = copy.copy(case); c.prog = b"\n".join(ls)
    return c
