#!/usr/bin/env python3
"""Typed random program generator over the repository's grammar.

A program is a list of lines; a line is a list of lexemes (indivisible token texts).
`render` joins lexemes with a layout policy, so layout can be varied independently (C10).
Every random choice comes from the `random.Random` handed in, so a (profile, seed, index)
triple regenerates a case exactly.
"""
import random

PRIMS = ["INTEGER", "REAL", "BOOLEAN", "CHAR", "STRING", "DATE"]

IDENT_POOL = ["FORMAT", "IFx", "TYPEa", "ENDx", "DIVISOR", "MODE", "ORDER", "NOTE", "TOTAL", "TRUEVAL",
              "Count", "idx", "val_1", "tmp2", "Acc", "flagB", "k9", "name_", "Zed", "w", "q", "u", "DOT", "TOP",
              "NEXTUP", "PRINTER", "READY", "CASEY", "WHILEY", "STEPS", "INPUTS", "CALLER", "ANDY", "ORB", "NOTT"]

def render(lines, sep=" ", indent=0, nl="\n"):
    out = []
    for ln in lines:
        out.append(" " * indent + sep.join(ln))
    return (nl.join(out) + nl).encode("latin1")

def strlit(s):
    r = '"'
    for ch in s:
        if ch == '"': r += '\\"'
        elif ch == "\\": r += "\\\\"
        elif ch == "\n": r += "\\n"
        elif ch == "\t": r += "\\t"
        else: r += ch
    return r + '"'

def charlit(c):
    if c == "'": return "'\\''"
    if c == "\\": return "'\\\\'"
    if c == "\n": return "'\\n'"
    if c == "\t": return "'\\t'"
    return "'" + c + "'"

class Env:
    def __init__(self, parent=None):
        self.parent = parent
        self.vars = {}      # name -> type
        self.consts = {}    # name -> type
        self.arrays = {}    # name -> (elem type, [(lo, hi)])

    def all_vars(self):
        d = {}
        if self.parent: d.update(self.parent.all_vars())
        d.update(self.vars)
        return d

    def all_arrays(self):
        d = {}
        if self.parent: d.update(self.parent.all_arrays())
        d.update(self.arrays)
        return d

class G:
    """generator state + building blocks"""
    def __init__(self, rng, **opts):
        self.r = rng
        self.o = dict(max_depth=3, real=True, dates=True, strings=True, enums=True, records=True, pointers=True,
                      arrays=True, procs=True, files=False, err_rate=0.04, loops=True, trace=True, reals_in_out=True)
        self.o.update(opts)
        self.env = Env()
        self.genv = self.env
        self.enums = {}     # name -> [values]
        self.records = {}   # name -> [(field, type) or (field, ('ARRAY', elem, dims))]
        self.ptrs = {}      # name -> target type
        self.procs = {}     # name -> [(pname, type, byref)]
        self.funcs = {}     # name -> ([(pname, type, byref)], ret)
        self.used = set()
        self.lines = []
        self.tag = 0
        self.features = set()
        self.loop_depth = 0
        self.in_func = None
        self.counter = 0
        self.faults = 1 if rng.random() < self.o.get("fault_prob", 0.3) else 0
        self.set_ptrs = set()
        self.known_small = {}
        self.call_depth = 0
        self.protected = set()
        self.str_lits_only = False
        self.ranges = {}        # FOR iterators in scope -> (lo, hi) of the values they take

    def fault(self):
        """inject a fault here? (at most `faults` per program)"""
        if self.faults > 0 and self.r.random() < self.o["err_rate"]:
            self.faults -= 1
            return True
        return False

    # ---------------------------------------------------------------- names
    def fresh(self, prefix=None):
        for _ in range(50):
            n = self.r.choice(IDENT_POOL) if prefix is None and self.r.random() < 0.5 else (prefix or "v") + str(self.counter)
            self.counter += 1
            if n not in self.used:
                self.used.add(n)
                return n
        n = "z%d" % self.counter; self.counter += 1; self.used.add(n); return n

    def types(self, prim_only=False):
        ts = ["INTEGER", "INTEGER", "BOOLEAN", "CHAR"]
        if self.o["real"]: ts.append("REAL")
        if self.o["strings"]: ts += ["STRING", "STRING"]
        if self.o["dates"]: ts.append("DATE")
        if not prim_only:
            ts += list(self.enums) + list(self.records) + list(self.ptrs)
        return ts

    def vars_of(self, ty, writable=False):
        out = [n for n, t in self.env.all_vars().items() if t == ty]
        if not writable:
            e = self.env
            while e:
                out += [n for n, t in e.consts.items() if t == ty and n not in out]
                e = e.parent
        return out

    # ---------------------------------------------------------------- literals
    def lit(self, ty):
        r = self.r
        if ty == "INTEGER":
            return [str(r.choice([0, 1, 2, 3, 5, 7, 10, 12, 100, 255, 1000, r.randint(0, 50), r.randint(0, 100000)]))]
        if ty == "REAL":
            return [r.choice(["0.5", "1.5", "2.25", "3.0", "10.125", "0.1", "100.75", "%d.%d" % (r.randint(0, 99), r.randint(0, 999))])]
        if ty == "BOOLEAN":
            return [r.choice(["TRUE", "FALSE"])]
        if ty == "CHAR":
            return [charlit(r.choice("abcxyzABCXYZ019 #_.,\\'\n\t\"")) ]
        if ty == "STRING":
            return [strlit("".join(r.choice("abcdeXYZ 012#.,\n\t\"\\'") for _ in range(r.randint(0, 6))))]
        if ty == "DATE":
            return ["%d/%d/%d" % (r.randint(1, 28), r.randint(1, 12), r.choice([1999, 2000, 2020, 2024, 1970, r.randint(1, 9999)]))]
        if ty in self.enums:
            return [r.choice(self.enums[ty])]
        raise KeyError(ty)

    def has_lit(self, ty):
        return ty in PRIMS or ty in self.enums

    # ---------------------------------------------------------------- expressions (lexeme lists)
    def paren(self, toks):
        return ["("] + toks + [")"]

    def atom(self, ty):
        """an atom-level expression of type ty (never needs parentheses as an operand)"""
        r = self.r
        choices = []
        vs = self.vars_of(ty)
        if ty == "STRING" and self.str_lits_only:
            return self.lit(ty)
        if vs: choices += ["var"] * 3
        if self.has_lit(ty): choices += ["lit"] * 2
        elems = [(n, a) for n, a in self.env.all_arrays().items() if a[0] == ty]
        if elems: choices.append("elem")
        recs = [(n, t) for n, t in self.env.all_vars().items() if t in self.records and any(f[1] == ty for f in self.records[t])]
        if recs: choices.append("field")
        arecs = [(n, a) for n, a in self.env.all_arrays().items() if a[0] in self.records and any(f[1] == ty for f in self.records[a[0]])]
        if arecs: choices += ["elemfield"] * 2
        pts = [(n, t) for n, t in self.env.all_vars().items() if t in self.ptrs and self.ptrs[t] == ty and n in getattr(self, "set_ptrs", set())]
        if pts: choices.append("deref")
        fs = [n for n, (ps, ret) in self.funcs.items() if ret == ty and n != self.in_func]
        if fs and self.o["procs"] and self.call_depth < 2: choices.append("call")
        if not choices:
            return None
        c = r.choice(choices)
        if c == "var": return [r.choice(vs)]
        if c == "lit": return self.lit(ty)
        if c == "elem":
            n, (et, dims) = r.choice(elems)
            idx = []
            for i, (lo, hi) in enumerate(dims):
                if i: idx.append(",")
                idx += self.index_expr(lo, hi)
            return [n, "["] + idx + ["]"]
        if c == "elemfield":
            n, (et, dims) = r.choice(arecs)
            idx = []
            for i, (lo, hi) in enumerate(dims):
                if i: idx.append(",")
                idx += self.index_expr(lo, hi)
            f = r.choice([f for f in self.records[et] if f[1] == ty])
            return [n, "["] + idx + ["]", ".", f[0]]
        if c == "field":
            n, t = r.choice(recs)
            f = r.choice([f for f in self.records[t] if f[1] == ty])
            return [n, ".", f[0]]
        if c == "deref":
            n, t = r.choice(pts)
            return [n, "^"]
        if c == "call":
            fn = r.choice(fs)
            e = self.call_expr(fn)
            if e is not None: return e
            if self.has_lit(ty): return self.lit(ty)
            return [r.choice(vs)] if vs else None
        return None

    def index_expr(self, lo, hi):
        r = self.r
        if self.fault():
            self.features.add("oob_index")
            return [str(r.choice([lo - 1, hi + 1]))] if r.choice([lo - 1, hi + 1]) >= 0 else ["-", str(-(lo - 1))]
        v = r.randint(lo, hi)
        if self.ranges and r.random() < 0.6:
            # a dynamic index: a FOR iterator (shifted if necessary) whose whole range stays inside the bounds
            it, (a, b) = r.choice(list(self.ranges.items()))
            if b - a <= hi - lo:
                shift = r.randint(lo - a, hi - b)
                if shift == 0: return [it]
                return [it, "+", str(shift)] if shift > 0 else [it, "-", str(-shift)]
        return [str(v)] if v >= 0 else ["-", str(-v)]

    def call_expr(self, fn):
        ps, ret = self.funcs[fn]
        self.call_depth += 1
        try:
            return self._call_expr(fn, ps)
        finally:
            self.call_depth -= 1

    def _call_expr(self, fn, ps):
        toks = [fn, "("]
        for i, (pn, pt, byref) in enumerate(ps):
            if i: toks.append(",")
            if byref and self.fault():
                # something that is not a variable where a BYREF parameter needs one (or a value of another type)
                e = self.expr(pt if self.r.random() < 0.7 else self.r.choice(self.types(prim_only=True)), 1)
                if e is None: return None
                toks += e if self.r.random() < 0.5 else ["("] + e + [")"]
                self.features.add("byref_nonvar")
            elif byref:
                vs = [v for v in self.vars_of(pt, writable=True) if v not in self.protected]
                if not vs: return None
                toks += [self.r.choice(vs)]
            else:
                e = self.expr(pt, 1)
                if e is None: return None
                toks += e
        return toks + [")"]

    def expr(self, ty, depth=None):
        """expression of type ty as lexemes; parenthesised where the grammar needs it"""
        r = self.r
        if depth is None: depth = self.o["max_depth"]
        if depth <= 0 or r.random() < 0.25:
            a = self.atom(ty)
            if a is not None: return a
            if self.has_lit(ty): return self.lit(ty)
            vs = self.vars_of(ty)
            if vs: return [r.choice(vs)]
            return None
        d = depth - 1
        if ty == "INTEGER":
            c = r.choice(["add", "sub", "mul", "div", "mod", "neg", "len", "asc", "int", "atom", "divf", "day"])
            if c in ("add", "sub", "mul"):
                op = {"add": "+", "sub": "-", "mul": "*"}[c]
                return self.bin(self.expr("INTEGER", d), op, self.expr("INTEGER", d), c)
            if c in ("div", "mod"):
                op = "DIV" if c == "div" else "MOD"
                rhs = [str(r.choice([1, 2, 3, 4, 5, 7, 10]))] if not self.fault() else ["0"]
                return self.bin(self.expr("INTEGER", d), op, rhs, "mul")
            if c == "divf":
                op = r.choice(["DIV", "MOD"])
                return [op, "("] + self.expr("INTEGER", d) + [","] + [str(r.choice([1, 2, 3, 5, 9]))] + [")"]
            if c == "neg":
                a = self.atom("INTEGER") or self.lit("INTEGER")
                return ["-"] + a
            if c == "len" and self.o["strings"]:
                return ["LENGTH", "("] + self.expr("STRING", d) + [")"]
            if c == "asc":
                return ["ASC", "("] + self.expr("CHAR", d) + [")"]
            if c == "int" and self.o["real"]:
                return ["INT", "("] + self.expr("REAL", d) + [")"]
            if c == "day" and self.o["dates"]:
                return [r.choice(["DAY", "MONTH", "YEAR", "DAYINDEX"]), "("] + self.expr("DATE", d) + [")"]
            return self.atom("INTEGER") or self.lit("INTEGER")
        if ty == "REAL":
            c = r.choice(["add", "sub", "mul", "slash", "mixed", "atom", "neg"])
            if c in ("add", "sub", "mul"):
                op = {"add": "+", "sub": "-", "mul": "*"}[c]
                lt = r.choice(["REAL", "REAL", "INTEGER"])
                rt = "REAL" if lt == "INTEGER" else r.choice(["REAL", "INTEGER"])
                return self.bin(self.expr(lt, d), op, self.expr(rt, d), c)
            if c == "slash":
                rhs = [str(r.choice([1, 2, 3, 4, 7, 8, 10]))] if not self.fault() else ["0"]
                return self.bin(self.expr(r.choice(["INTEGER", "REAL"]), d), "/", rhs, "mul")
            if c == "mixed":
                return self.bin(self.expr("INTEGER", d), "/", [r.choice(["2", "4", "0.5", "8"])], "mul")
            if c == "neg":
                a = self.atom("REAL") or self.lit("REAL")
                return ["-"] + a
            return self.atom("REAL") or self.lit("REAL")
        if ty == "BOOLEAN":
            c = r.choice(["cmp", "cmp", "and", "or", "not", "atom", "eqs", "cmpc"])
            if c == "cmp":
                t = r.choice(["INTEGER", "INTEGER", "REAL"] if self.o["real"] else ["INTEGER"])
                t2 = t if r.random() < 0.7 or not self.o["real"] else r.choice(["INTEGER", "REAL"])
                op = r.choice(["=", "<>", "<", "<=", ">", ">="])
                return self.bin(self.expr(t, d), op, self.expr(t2, d), "cmp")
            if c == "cmpc":
                t = r.choice(["CHAR"] + (["DATE"] if self.o["dates"] else []))
                op = r.choice(["=", "<>", "<", "<=", ">", ">="])
                return self.bin(self.expr(t, d), op, self.expr(t, d), "cmp")
            if c == "eqs" and self.o["strings"]:
                t = r.choice(["STRING", "BOOLEAN"] + list(self.enums))
                l, rr = self.expr(t, d), self.expr(t, d)
                if l is None or rr is None: return self.lit("BOOLEAN")
                return self.bin(l, r.choice(["=", "<>"]), rr, "cmp")
            if c in ("and", "or"):
                # operands parenthesised unless atoms: mixing AND/OR unparenthesised is outside the spec
                l, rr = self.expr("BOOLEAN", d), self.expr("BOOLEAN", d)
                return self.wrap(l, "logic") + [c.upper()] + self.wrap(rr, "logic")
            if c == "not":
                return ["NOT"] + self.wrap(self.expr("BOOLEAN", d), "not")
            return self.atom("BOOLEAN") or self.lit("BOOLEAN")
        if ty == "CHAR":
            c = r.choice(["atom", "chr", "case", "atom"])
            if c == "chr":
                return ["CHR", "("] + [str(r.randint(33, 126))] + [")"]
            if c == "case":
                return [r.choice(["LCASE", "UCASE"]), "("] + self.expr("CHAR", d) + [")"]
            return self.atom("CHAR") or self.lit("CHAR")
        if ty == "STRING":
            c = r.choice(["atom", "cat", "cat", "upper", "numstr", "sub"])
            if c == "cat":
                lt = r.choice(["STRING", "STRING", "CHAR", "INTEGER", "BOOLEAN"])
                l = self.expr(lt, d); rr = self.expr("STRING", d)
                return self.wrap(l, "cat") + ["&"] + self.wrap(rr, "cat")
            if c == "upper":
                return [r.choice(["TO_UPPER", "TO_LOWER"]), "("] + self.expr("STRING", d) + [")"]
            if c == "numstr" and self.o["real"]:
                return ["NUM_TO_STR", "("] + self.expr(r.choice(["REAL", "INTEGER"]), d) + [")"]
            if c == "sub":
                s = "".join(r.choice("abcdefXYZ01 ") for _ in range(r.randint(1, 8)))
                n = r.randint(0, len(s))
                if self.fault(): n = len(s) + 1
                fn = r.choice(["LEFT", "RIGHT", "MID"])
                if fn == "MID":
                    i = r.randint(1, len(s)); k = r.randint(0, len(s) - i + 1)
                    return ["MID", "(", strlit(s), ",", str(i), ",", str(k), ")"]
                return [fn, "(", strlit(s), ",", str(n), ")"]
            return self.atom("STRING") or self.lit("STRING")
        if ty == "DATE":
            if r.random() < 0.3:
                return ["SETDATE", "(", str(r.randint(1, 28)), ",", str(r.randint(1, 12)), ",", str(r.randint(1, 9999)), ")"]
            return self.atom("DATE") or self.lit("DATE")
        if ty in self.enums:
            if r.random() < 0.4:
                a = self.atom(ty) or self.lit(ty)
                k = self.expr("INTEGER", 0)
                return a + [r.choice(["+", "-"])] + self.wrap(k, "add")
            return self.atom(ty) or self.lit(ty)
        a = self.atom(ty)
        return a

    LEVEL = {"mul": 5, "add": 4, "sub": 4, "cat": 3, "cmp": 2, "not": 2, "logic": 1}

    def is_atomic(self, toks):
        if toks is None: return True
        if len(toks) == 1: return True
        # identifier chains, calls and parenthesised groups are atoms
        depth = 0
        for i, t in enumerate(toks):
            if t in ("(", "["): depth += 1
            elif t in (")", "]"): depth -= 1
            elif depth == 0 and t in ("+", "-", "*", "/", "DIV", "MOD", "&", "=", "<>", "<", "<=", ">", ">=", "AND", "OR", "NOT"):
                if not (i == 0 and t == "-"):
                    return False
        return not (toks[0] == "-")

    def wrap(self, toks, ctx):
        """parenthesise an operand unless it is atomic; randomly add redundant parentheses"""
        if toks is None: toks = ["0"]
        if not self.is_atomic(toks) or self.r.random() < 0.1:
            return self.paren(toks)
        return toks

    def bin(self, l, op, rr, kind):
        if l is None: l = ["0"]
        if rr is None: rr = ["1"]
        return self.wrap(l, kind) + [op] + self.wrap(rr, kind)

    # ---------------------------------------------------------------- statements
    def emit(self, *toks):
        self.lines.append([t for t in toks])

    def emitl(self, toks):
        self.lines.append(list(toks))

    def trace(self, label=None):
        if not self.o["trace"]: return
        self.tag += 1
        self.emit("OUTPUT", strlit("@%d%s" % (self.tag, (" " + label) if label else "")))

    def declare(self, ty=None, name=None):
        r = self.r
        ty = ty or r.choice(self.types())
        n = name or self.fresh()
        self.emit("DECLARE", n, ":", ty)
        self.env.vars[n] = ty
        return n

    def declare_array(self, elem=None, dims=None):
        r = self.r
        elem = elem or r.choice(self.types(prim_only=r.random() < 0.7))
        if elem in self.ptrs: elem = "INTEGER"
        if dims is None:
            dims = []
            for _ in range(r.choice([1, 1, 1, 2, 2, 3])):
                lo = r.randint(-2, 3); hi = lo + r.randint(0, 3)
                dims.append((lo, hi))
        n = self.fresh("arr")
        toks = ["DECLARE", n, ":", "ARRAY", "["]
        for i, (lo, hi) in enumerate(dims):
            if i: toks.append(",")
            toks += self.int_lex(lo) + [":"] + self.int_lex(hi)
        toks += ["]", "OF", elem]
        self.emitl(toks)
        self.env.arrays[n] = (elem, dims)
        return n

    def int_lex(self, v):
        return [str(v)] if v >= 0 else ["-", str(-v)]

    def define_enum(self):
        n = self.fresh("En")
        k = self.r.randint(1, 5)
        vals = [self.fresh("E") for _ in range(k)]
        toks = ["TYPE", n, "=", "("]
        for i, v in enumerate(vals):
            if i: toks.append(",")
            toks.append(v)
        toks.append(")")
        self.emitl(toks)
        self.enums[n] = vals
        return n

    def define_ptr(self, target=None):
        n = self.fresh("Pt")
        target = target or self.r.choice(["INTEGER", "STRING", "REAL", "BOOLEAN"] + list(self.records) + list(self.enums))
        self.emit("TYPE", n, "=", "^", target)
        self.ptrs[n] = target
        return n

    def define_record(self, with_arrays=True, nest=True):
        r = self.r
        n = self.fresh("Rec")
        fields = []
        self.emit("TYPE", n)
        for _ in range(r.randint(1, 4)):
            fn = self.fresh("f")
            choices = self.types(prim_only=True) + list(self.enums)
            if nest: choices += list(self.records)
            ft = r.choice(choices)
            if with_arrays and r.random() < 0.3:
                lo = r.randint(0, 2); hi = lo + r.randint(0, 2)
                self.emit("DECLARE", fn, ":", "ARRAY", "[", str(lo), ":", str(hi), "]", "OF", ft)
                fields.append((fn, ("ARRAY", ft, [(lo, hi)])))
            else:
                self.emit("DECLARE", fn, ":", ft)
                fields.append((fn, ft))
        self.emit("ENDTYPE")
        self.records[n] = fields
        return n

    def whole_array_assign(self):
        """`b <- a` for two arrays of the same shape and element type — the same array included — also for array fields of records"""
        r = self.r
        cands = [([n], (et, tuple(map(tuple, dims)))) for n, (et, dims) in self.env.all_arrays().items()]
        for n, t in self.env.all_vars().items():
            if t in self.records and n not in self.protected:
                for f in self.records[t]:
                    if isinstance(f[1], tuple):
                        _, et, dims = f[1]
                        cands.append(([n, ".", f[0]], (et, tuple(map(tuple, dims)))))
        if not cands: return False
        src, shape = r.choice(cands)
        same = [c for c, sh in cands if sh == shape]
        dst = r.choice(same)
        self.emitl(dst + ["<-"] + src)
        self.features.add("array_copy_self" if dst == src else "array_copy")
        return True

    def assign(self):
        r = self.r
        if r.random() < 0.07 and self.whole_array_assign(): return
        targets = []
        for n, t in self.env.all_vars().items():
            if n in self.protected: continue
            targets.append(([n], t))
        for n, (et, dims) in self.env.all_arrays().items():
            idx = []
            for i, (lo, hi) in enumerate(dims):
                if i: idx.append(",")
                idx += self.index_expr(lo, hi)
            targets.append(([n, "["] + idx + ["]"], et))
        for n, (et, dims) in self.env.all_arrays().items():
            if et in self.records:
                idx = []
                for i, (lo, hi) in enumerate(dims):
                    if i: idx.append(",")
                    idx += self.index_expr(lo, hi)
                for f in self.records[et]:
                    if not isinstance(f[1], tuple):
                        targets.append(([n, "["] + idx + ["]", ".", f[0]], f[1]))
        for n, t in list(self.env.all_vars().items()):
            if t in self.records:
                for f in self.records[t]:
                    if isinstance(f[1], tuple):
                        _, et, dims = f[1]
                        targets.append(([n, ".", f[0], "[", str(r.randint(dims[0][0], dims[0][1])), "]"], et))
                    else:
                        targets.append(([n, ".", f[0]], f[1]))
        if not targets:
            n = self.fresh()
            ty = r.choice(self.types(prim_only=True))
            e = self.expr(ty)
            self.emitl([n, "<-"] + e)
            self.env.vars[n] = ty
            return
        tgt, ty = r.choice(targets)
        if self.fault():
            # ill-typed store
            others = [t for t in self.types(prim_only=True) if t != ty]
            ty2 = r.choice(others)
            e = self.expr(ty2, 1)
            self.features.add("bad_store")
        elif ty in self.ptrs:
            tv = [n for n, t in self.env.all_vars().items() if t == self.ptrs[ty]]
            if tv and r.random() < 0.7:
                self.emitl(tgt + ["<-", "^", r.choice(tv)])
                if len(tgt) == 1:
                    self.set_ptrs = self.set_ptrs | {tgt[0]}
                return
            pv = [n for n, t in self.env.all_vars().items() if t == ty and [n] != tgt]
            if not pv: return
            src = r.choice(pv)
            self.emitl(tgt + ["<-", src])
            if len(tgt) == 1 and src in getattr(self, "set_ptrs", set()):
                self.set_ptrs = self.set_ptrs | {tgt[0]}
            elif len(tgt) == 1:
                self.set_ptrs = self.set_ptrs - {tgt[0]}
            return
        else:
            # a string assigned inside a loop or routine must not be built from string variables (exponential growth)
            self.str_lits_only = (ty in ("STRING", "CHAR")) and (self.loop_depth > 0 or self.env is not self.genv)
            try:
                e = self.expr(ty)
            finally:
                self.str_lits_only = False
        if e is None: return
        self.emitl(tgt + ["<-"] + e)
        if tgt[0] in getattr(self, "known_small", {}) and len(tgt) == 1:
            del self.known_small[tgt[0]]

    def output(self):
        r = self.r
        n = r.randint(1, 3)
        toks = ["OUTPUT" if r.random() < 0.8 else "PRINT"]
        tys = self.types()
        for i in range(n):
            if i: toks.append(",")
            ty = r.choice(tys)
            e = self.expr(ty, 2)
            if e is None: e = self.lit("INTEGER")
            toks += e
        self.emitl(toks)

    def block(self, depth, n=None, scoped=True):
        n = n if n is not None else self.r.randint(1, 4)
        if scoped:
            saved = (self.env, set(self.set_ptrs))
            self.env = Env(self.env)
        for _ in range(n):
            self.stmt(depth)
        if scoped:
            self.env, self.set_ptrs = saved

    def stmt(self, depth):
        r = self.r
        kinds = ["assign"] * 5 + ["output"] * 3
        if self.loop_depth == 0:
            kinds += ["declare"] * 2
            if self.o["arrays"]: kinds += ["declarr"]
        if depth > 0 and self.o["loops"]:
            kinds += ["if", "if", "case", "while", "repeat", "for", "for"]
        if self.loop_depth > 0: kinds += ["break", "continue"]
        if self.procs and self.o["procs"]: kinds += ["call", "call"]
        if self.in_func: kinds += ["return"]
        k = r.choice(kinds)
        if k == "assign": self.assign()
        elif k == "output": self.output()
        elif k == "declare": self.declare()
        elif k == "declarr": self.declare_array()
        elif k == "if": self.if_stmt(depth)
        elif k == "case": self.case_stmt(depth)
        elif k == "while": self.while_stmt(depth)
        elif k == "repeat": self.repeat_stmt(depth)
        elif k == "for": self.for_stmt(depth)
        elif k == "break":
            if r.random() < 0.5:
                self.emitl(["IF"] + self.expr("BOOLEAN", 1) + ["THEN"]); self.emit(r.choice(["BREAK", "CONTINUE"])); self.emit("ENDIF")
            else:
                self.emit("BREAK")
        elif k == "continue":
            self.emitl(["IF"] + self.expr("BOOLEAN", 1) + ["THEN"]); self.emit("CONTINUE"); self.emit("ENDIF")
        elif k == "call": self.call_stmt()
        elif k == "return":
            ret = self.funcs[self.in_func][1]
            self.emitl(["RETURN"] + (self.expr(ret, 2) or self.lit("INTEGER")))

    def cond(self):
        if self.fault():
            self.features.add("bad_cond")
            return self.expr("INTEGER", 1)
        return self.expr("BOOLEAN", 2)

    def if_stmt(self, depth):
        r = self.r
        self.emitl(["IF"] + self.cond() + ["THEN"])
        self.trace("if"); self.block(depth - 1)
        for _ in range(r.choice([0, 0, 1, 2])):
            self.emitl(["ELSE", "IF"] + self.cond() + ["THEN"])
            self.features.add("elseif")
            self.trace("elif"); self.block(depth - 1)
        if r.random() < 0.5:
            self.emit("ELSE"); self.trace("else"); self.block(depth - 1)
        self.emit("ENDIF")

    def case_stmt(self, depth):
        r = self.r
        cands = [(n, t) for n, t in self.env.all_vars().items() if t in ("INTEGER", "REAL", "CHAR", "STRING", "BOOLEAN")]
        if not cands: return self.assign()
        n, t = r.choice(cands)
        self.emit("CASE", "OF", n)
        for _ in range(r.randint(1, 4)):
            if t in ("INTEGER", "REAL") and r.random() < 0.4:
                lo = r.randint(0, 10); hi = lo + r.randint(0, 10)
                self.emitl([str(lo), "TO", str(hi), ":"] + self.simple_stmt())
            else:
                self.emitl(self.expr(t, 1) + [":"] + self.simple_stmt())
            if r.random() < 0.5:
                self.trace("case")
        if r.random() < 0.6:
            self.emitl(["OTHERWISE", ":"] + self.simple_stmt())
        self.emit("ENDCASE")

    def simple_stmt(self):
        """one statement on the rest of a CASE clause line (must contain no ':' )"""
        self.tag += 1
        return ["OUTPUT", strlit("@%d c" % self.tag)]

    def while_stmt(self, depth):
        r = self.r
        c = self.fresh("wc")
        n = r.randint(0, 4)
        self.emit(c, "<-", "0"); self.env.vars[c] = "INTEGER"; self.protected.add(c)
        self.emitl(["WHILE", c, "<", str(n)] + (["DO"] if r.random() < 0.7 else []))
        self.emit(c, "<-", c, "+", "1")
        self.loop_depth += 1
        self.trace("while"); self.block(depth - 1)
        self.loop_depth -= 1
        self.emit("ENDWHILE")

    def repeat_stmt(self, depth):
        r = self.r
        c = self.fresh("rc")
        n = r.randint(1, 4)
        self.emit(c, "<-", "0"); self.env.vars[c] = "INTEGER"; self.protected.add(c)
        self.emit("REPEAT")
        self.emit(c, "<-", c, "+", "1")
        self.loop_depth += 1
        self.trace("repeat"); self.block(depth - 1)
        self.loop_depth -= 1
        self.emitl(["UNTIL", c, ">=", str(n)])

    def for_stmt(self, depth):
        r = self.r
        it = self.fresh("i")
        a = r.randint(-3, 5); b = r.randint(-3, 8)
        step = r.choice([None, None, 1, 2, 3, -1, -2])
        toks = ["FOR", it, "<-"] + self.int_lex(a) + ["TO"] + self.int_lex(b)
        if step is not None: toks += ["STEP"] + self.int_lex(step)
        self.emitl(toks)
        self.env.vars[it] = "INTEGER"; self.protected.add(it)
        self.loop_depth += 1
        self.emit("OUTPUT", strlit("@for "), "&", it)
        st = 1 if step is None else step
        if (st > 0 and a <= b) or (st < 0 and a >= b):
            self.ranges[it] = (min(a, b), max(a, b))
        self.block(depth - 1)
        self.ranges.pop(it, None)
        self.loop_depth -= 1
        self.emitl(["NEXT"] + ([it] if r.random() < 0.7 else []))
        self.emit("OUTPUT", strlit("after "), "&", it)

    def call_stmt(self):
        r = self.r
        pn = r.choice(list(self.procs))
        ps = self.procs[pn]
        toks = ["CALL", pn]
        if ps or r.random() < 0.5:
            toks.append("(")
            for i, (n, t, byref) in enumerate(ps):
                if i: toks.append(",")
                if byref and self.fault():
                    e = self.expr(t if r.random() < 0.7 else r.choice(self.types(prim_only=True)), 1)
                    if e is None: return self.assign()
                    toks += e if r.random() < 0.5 else ["("] + e + [")"]
                    self.features.add("byref_nonvar")
                elif byref:
                    vs = [v for v in self.vars_of(t, writable=True) if v not in self.protected]
                    if not vs and self.loop_depth == 0:
                        vs = [self.declare(t)]
                    if vs: toks.append(r.choice(vs))
                    else: return self.assign()
                else:
                    e = self.expr(t, 2)
                    if e is None: return self.assign()
                    toks += e
            toks.append(")")
        self.emitl(toks)

    def param_list(self, n=None):
        r = self.r
        n = r.randint(0, 3) if n is None else n
        ps, toks = [], []
        mode = False
        for i in range(n):
            if i: toks.append(",")
            c = r.choice(["", "", "BYREF", "BYVAL"])
            if c == "BYREF": mode = True
            elif c == "BYVAL": mode = False
            if c: toks.append(c)
            name = self.fresh("p")
            ty = r.choice(self.types(prim_only=r.random() < 0.8))
            toks += [name, ":", ty]
            ps.append((name, ty, mode))
        return ps, toks

    def define_proc(self, depth=2):
        r = self.r
        name = self.fresh("Proc")
        ps, ptoks = self.param_list()
        toks = ["PROCEDURE", name]
        if ps or r.random() < 0.3: toks += ["("] + ptoks + [")"]
        self.emitl(toks)
        saved = (self.env, self.loop_depth, getattr(self, "set_ptrs", set()))
        self.env = Env(self.genv); self.loop_depth = 0
        for n, t, b in ps: self.env.vars[n] = t
        self.trace("proc " + name)
        self.block(depth)
        self.env, self.loop_depth, self.set_ptrs = saved
        self.emit("ENDPROCEDURE")
        self.procs[name] = ps
        return name

    def define_func(self, depth=2):
        r = self.r
        name = self.fresh("Fn")
        ps, ptoks = self.param_list()
        ret = r.choice(self.types(prim_only=r.random() < 0.8))
        if ret in self.ptrs: ret = "INTEGER"
        toks = ["FUNCTION", name]
        if ps or r.random() < 0.3: toks += ["("] + ptoks + [")"]
        toks += ["RETURNS", ret]
        self.emitl(toks)
        saved = (self.env, self.loop_depth, self.in_func, getattr(self, "set_ptrs", set()))
        self.env = Env(self.genv); self.loop_depth = 0
        self.funcs[name] = (ps, ret)
        self.in_func = name
        for n, t, b in ps: self.env.vars[n] = t
        self.trace("fn " + name)
        self.block(depth)
        e = self.expr(ret, 2)
        if e is None:
            v = self.declare(ret); e = [v]
        self.emitl(["RETURN"] + e)
        self.env, self.loop_depth, self.in_func, self.set_ptrs = saved
        self.emit("ENDFUNCTION")
        return name

    # ---------------------------------------------------------------- state dump
    def dump_value(self, ref, ty, depth=0):
        """lines printing the value designated by lexemes `ref` of type `ty`"""
        if ty in PRIMS or ty in self.enums:
            self.emitl(["OUTPUT", strlit("=" + "".join(ref) + " ")] + [","] + ref)
        elif ty in self.records and depth < 3:
            for f in self.records[ty]:
                if isinstance(f[1], tuple):
                    _, et, dims = f[1]
                    for i in range(dims[0][0], dims[0][1] + 1):
                        self.dump_value(ref + [".", f[0], "[", str(i), "]"], et, depth + 1)
                else:
                    self.dump_value(ref + [".", f[0]], f[1], depth + 1)

    def dump_state(self, env=None):
        env = env or self.env
        for n, t in env.vars.items():
            self.dump_value([n], t)
        for n, t in env.consts.items():
            self.dump_value([n], t)
        for n, (et, dims) in env.arrays.items():
            import itertools
            rngs = [range(lo, hi + 1) for lo, hi in dims]
            cells = list(itertools.product(*rngs))
            for cell in cells[:40]:
                idx = []
                for i, v in enumerate(cell):
                    if i: idx.append(",")
                    idx += self.int_lex(v)
                self.dump_value([n, "["] + idx + ["]"], et)

    # ---------------------------------------------------------------- whole programs
    def prelude(self):
        r = self.r
        if self.o["enums"]:
            for _ in range(r.randint(0, 2)): self.define_enum()
        if self.o["records"]:
            for _ in range(r.randint(0, 2)): self.define_record()
        if self.o["pointers"]:
            for _ in range(r.randint(0, 2)): self.define_ptr()
        for _ in range(r.randint(2, 6)):
            ty = r.choice(self.types())
            self.declare(ty)
        if r.random() < 0.5:
            n = self.fresh("K")
            ty = r.choice(["INTEGER", "REAL", "BOOLEAN", "CHAR", "STRING"])
            self.emitl(["CONSTANT", n, r.choice(["=", "<-"])] + self.lit(ty))
            self.env.consts[n] = ty
        if self.o["arrays"]:
            for _ in range(r.randint(0, 2)): self.declare_array()
        # initialise some variables
        for n, t in list(self.env.vars.items()):
            if self.has_lit(t) and r.random() < 0.7:
                self.emitl([n, "<-"] + self.lit(t))

    def program(self, nstmts=None, depth=None):
        r = self.r
        depth = self.o["max_depth"] if depth is None else depth
        self.prelude()
        if self.o["procs"]:
            for _ in range(r.randint(0, 2)): self.define_proc()
            for _ in range(r.randint(0, 2)): self.define_func()
        self.block(depth, nstmts if nstmts is not None else r.randint(3, 10), scoped=False)
        self.dump_state()
        return self.lines
