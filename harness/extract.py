#!/usr/bin/env python3
"""Tie II: regenerate lean/Generated/Tables.lean from the C++ sources (keyword table, token vocabulary, operator levels of the
expression parser, block terminators, built-in registry, abort / pedantic site census). `PseudoProofs/TablesAgree.lean`
proves the model's own tables equal to the regenerated ones. If a source shape is not recognised the table is reported
as unavailable (no alarm): the previous file content for that table is kept."""
import os, re, sys
VERIF = os.path.dirname(os.path.dirname(os.path.abspath(__file__)))
REPO = os.environ.get("VERIF_REPO", "/repo")
OUT = os.path.join(VERIF, "lean", "Generated", "Tables.lean")

def read(p):
    return open(os.path.join(REPO, p)).read()

def strip_comments(s):
    s = re.sub(r"//[^\n]*", "", s)
    return re.sub(r"/\*.*?\*/", "", s, flags=re.S)

def keywords():
    s = strip_comments(read("src/lexer/symbolLexer.cpp"))
    m = re.search(r"void\s+Lexer::makeWord\(\)\s*\{(.*?)\n\}", s, re.S)
    if not m: raise ValueError("makeWord not found")
    body = m.group(1)
    out = []
    # each branch: (word == "A" || word == "B") { tokens.emplace_back(new Token(TokenType::K, ...
    for cond, kind in re.findall(r"if\s*\(((?:\s*word\s*==\s*\"[A-Z_]+\"\s*\|?\|?)+)\)\s*\{\s*tokens\.emplace_back\(new Token\(TokenType::([A-Z_]+)", body):
        for w in re.findall(r"\"([A-Z_]+)\"", cond):
            out.append((w, kind))
    if len(out) < 40: raise ValueError("keyword chain not recognised")
    # every branch of the chain must have been recognised (one emplace_back per branch, plus the final IDENTIFIER branch)
    n_emplace = len(re.findall(r"tokens\.emplace_back\(new Token\(TokenType::", body))
    n_branches = len(re.findall(r"if\s*\(((?:\s*word\s*==\s*\"[A-Z_]+\"\s*\|?\|?)+)\)\s*\{\s*tokens\.emplace_back", body))
    if n_emplace != n_branches + 1:
        raise ValueError("keyword chain only partly recognised (%d of %d branches)" % (n_branches, n_emplace - 1))
    return out

def token_kinds():
    s = strip_comments(read("src/lexer/tokens.h"))
    m = re.search(r"enum\s+class\s+TokenType\s*\{(.*?)\};", s, re.S)
    if not m: raise ValueError("TokenType not found")
    ks = [x.strip() for x in m.group(1).split(",") if x.strip()]
    if len(ks) < 50: raise ValueError("TokenType too short")
    return ks

LEVEL_FUNCS = [("parseEvaluationExpression", 0), ("parseLogicalExpression", 1), ("parseComparisonExpression", 2),
               ("parseStringExpression", 3), ("parseArithmeticExpression", 4), ("parseTerm", 5)]

def expr_levels():
    s = strip_comments(read("src/parser/evalExprParser.cpp"))
    out = []
    for fn, lvl in LEVEL_FUNCS:
        m = re.search(r"Node\s*\*\s*Parser::%s\(\)\s*\{(.*?)\n\}" % fn, s, re.S)
        if not m: raise ValueError(fn + " not found")
        body = m.group(1)
        w = re.search(r"while\s*\((.*?)\)\s*\{", body, re.S)
        if not w: raise ValueError(fn + ": no operator loop")
        ops = re.findall(r"TokenType::([A-Z_]+)", w.group(1))
        if len(re.findall(r"currentToken->type\s*==", w.group(1))) != len(ops) or len(re.findall(r"while\s*\(", body)) != 1:
            raise ValueError(fn + ": operator loop only partly recognised")
        # operand parser: first parseX() call of the body that is not the function itself
        calls = [c for c in re.findall(r"(parse[A-Za-z]+)\(\)", body) if c != fn]
        if not ops or not calls: raise ValueError(fn + ": shape not recognised")
        out.append((lvl, ops, calls[0]))
    return out

def block_terminators():
    s = strip_comments(read("src/parser/parser.cpp"))
    m = re.search(r"PSC::Block\s*\*\s*Parser::parseBlock\(.*?\)\s*\{(.*?)\n\}", s, re.S)
    if not m: raise ValueError("parseBlock not found")
    w = re.search(r"if\s*\(((?:\s*currentToken->type\s*==\s*TokenType::[A-Z_]+\s*\|?\|?)+)\)\s*break", m.group(1), re.S)
    if not w: raise ValueError("terminator test not recognised")
    return re.findall(r"TokenType::([A-Z_]+)", w.group(1))

TYMAP = {"INTEGER": "int", "REAL": "real", "BOOLEAN": "bool", "CHAR": "chr", "STRING": "str", "DATE": "date"}

def builtins():
    ctx = strip_comments(read("src/psc/scope/context.cpp"))
    order = re.findall(r"addFunction\(std::make_unique<PSC::(BuiltinFn[A-Za-z0-9]+)>\(\)\)", ctx)
    if len(order) < 30: raise ValueError("registration list not recognised")
    defs = {}
    for f in os.listdir(os.path.join(REPO, "src/psc/builtinFunctions")):
        if not f.endswith(".cpp"): continue
        s = strip_comments(read("src/psc/builtinFunctions/" + f))
        for m in re.finditer(r"PSC::(BuiltinFn[A-Za-z0-9]+)::\1\(\)\s*:\s*Function\(\"([A-Z_0-9]+)\",\s*PSC::DataType::([A-Z]+)\)\s*\{(.*?)\n\}", s, re.S):
            cls, name, ret, body = m.groups()
            ps = re.findall(r"parameters\.emplace_back\(\"([A-Za-z]+)\",\s*PSC::DataType::([A-Z]+),\s*(true|false)\)", body)
            defs[cls] = (name, [(pn, TYMAP[pt]) for pn, pt, _ in ps], TYMAP[ret])
    out = []
    for cls in order:
        if cls not in defs: raise ValueError("constructor of %s not recognised" % cls)
        out.append(defs[cls])
    if len(re.findall(r"addFunction\(", ctx)) != len(order) + 1:      # + the definition of Context::addFunction itself
        raise ValueError("registration list only partly recognised")
    return out

def census():
    aborts, ped = [], []
    for root, _, files in os.walk(os.path.join(REPO, "src")):
        for f in sorted(files):
            if not f.endswith((".cpp", ".h")) or f == "verif_hook.h": continue
            p = os.path.join(root, f)
            s = strip_comments(open(p).read())
            rel = os.path.relpath(p, REPO)
            n = len(re.findall(r"std::abort\(\)", s))
            if n: aborts.append((rel, n))
            for m in re.finditer(r"PedanticError\([^,]+,\s*\"([^\"]+)\"\)", s):
                ped.append((rel, m.group(1)))
    return sorted(aborts), sorted(ped)

def lean_str(s): return '"' + s.replace("\\", "\\\\").replace('"', '\\"') + '"'

def regenerate():
    status = {}
    parts = ["/- GENERATED by harness/extract.py from the C++ sources of /repo on every check run. Do not edit. -/",
             "import PseudoModel.Token", "import PseudoModel.Value", "namespace Generated", "open Pseudo", ""]
    def table(name, fn, render, fallback):
        try:
            v = fn(); status[name] = "extracted"
            parts.append(render(v))
        except Exception as e:
            status[name] = "unavailable (%s)" % (str(e)[:120],)
            parts.append(fallback)
    table("keywords", keywords, lambda v: "def keywords : List (String × TK) := [\n  " + ",\n  ".join("(%s, TK.%s)" % (lean_str(a), b) for a, b in v) + "]\ndef keywordsAvailable : Bool := true\n",
          "def keywords : List (String × TK) := []\ndef keywordsAvailable : Bool := false\n")
    table("tokenKinds", token_kinds, lambda v: "def tokenKinds : List TK := [" + ", ".join("TK." + x for x in v) + "]\ndef tokenKindsAvailable : Bool := true\n",
          "def tokenKinds : List TK := []\ndef tokenKindsAvailable : Bool := false\n")
    table("exprLevels", expr_levels, lambda v: "def exprLevels : List (Nat × List TK × String) := [\n  " + ",\n  ".join("(%d, [%s], %s)" % (l, ", ".join("TK." + o for o in ops), lean_str(c)) for l, ops, c in v) + "]\ndef exprLevelsAvailable : Bool := true\n",
          "def exprLevels : List (Nat × List TK × String) := []\ndef exprLevelsAvailable : Bool := false\n")
    table("blockTerminators", block_terminators, lambda v: "def blockTerminators : List TK := [" + ", ".join("TK." + x for x in v) + "]\ndef blockTerminatorsAvailable : Bool := true\n",
          "def blockTerminators : List TK := []\ndef blockTerminatorsAvailable : Bool := false\n")
    table("builtins", builtins, lambda v: "def builtins : List (String × List (String × Ty) × Ty) := [\n  " + ",\n  ".join("(%s, [%s], Ty.%s)" % (lean_str(n), ", ".join("(%s, Ty.%s)" % (lean_str(a), b) for a, b in ps), r) for n, ps, r in v) + "]\ndef builtinsAvailable : Bool := true\n",
          "def builtins : List (String × List (String × Ty) × Ty) := []\ndef builtinsAvailable : Bool := false\n")
    try:
        ab, ped = census(); status["census"] = "extracted"
        parts.append("def abortSites : List (String × Nat) := [" + ", ".join("(%s, %d)" % (lean_str(a), n) for a, n in ab) + "]\n")
        parts.append("def pedanticSites : List (String × String) := [" + ", ".join("(%s, %s)" % (lean_str(a), lean_str(b)) for a, b in ped) + "]\n")
    except Exception as e:
        status["census"] = "unavailable (%s)" % (str(e)[:120],)
        parts.append("def abortSites : List (String × Nat) := []\ndef pedanticSites : List (String × String) := []\n")
    parts.append("end Generated\n")
    text = "\n".join(parts)
    os.makedirs(os.path.dirname(OUT), exist_ok=True)
    old = open(OUT).read() if os.path.exists(OUT) else None
    if old != text:
        with open(OUT, "w") as f: f.write(text)
    return status

if __name__ == "__main__":
    print(regenerate())
