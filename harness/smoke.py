#!/usr/bin/env python3
import sys, os, glob
sys.path.insert(0, os.path.dirname(os.path.abspath(__file__)))
from core import *
import build
exe = build.build("normal")
cases = []
for p in sorted(glob.glob("/repo/tests/*.pseudo") + glob.glob("/repo/examples/*.pseudo")):
    prog = open(p, "rb").read()
    cases.append(Case(id=os.path.basename(p), prog=prog, stdin=b"5\n7\nhello\n3\n1\n2\n3\n4\n5\n6\n7\n8\n9\n10\n"))
real = run_real_many(exe, cases)
model = run_model_many(cases)
for c, r, m in zip(cases, real, model):
    d = compare(r, m)
    print(c.id, "OK" if not d else "DIFF", "inconcl" if (r.inconclusive or m.inconclusive) else "", r.crash or "", m.crash or "")
    for a, x, y in d:
        print("   ", a)
        print("      real :", repr(x)[:1500])
        print("      model:", repr(y)[:1500])
cleanup_scratch()
