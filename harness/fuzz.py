#!/usr/bin/env python3
"""ad-hoc differential run of the generic generator (development aid)"""
import sys, os, random
sys.path.insert(0, os.path.dirname(os.path.abspath(__file__)))
from core import *
from gen import G, render
import build
n = int(sys.argv[1]) if len(sys.argv) > 1 else 200
seed = int(sys.argv[2]) if len(sys.argv) > 2 else 1
kind = sys.argv[3] if len(sys.argv) > 3 else "normal"
exe = build.build(kind)
cases = []
for i in range(n):
    rng = random.Random(seed * 1000003 + i)
    g = G(rng)
    try:
        lines = g.program()
    except Exception as e:
        import traceback; traceback.print_exc(); continue
    cases.append(Case(id="g%d" % i, prog=render(lines), stdin=b"12\nabc\n"))
t0 = time.time()
real = run_real_many(exe, cases)
t1 = time.time()
model = run_model_many(cases)
t2 = time.time()
nd = 0; ninc = 0; nerr = 0
for c, r, m in zip(cases, real, model):
    if r.inconclusive or m.inconclusive: ninc += 1; continue
    if r.diags: nerr += 1
    d = compare(r, m)
    if d or r.crash or m.crash:
        nd += 1
        if nd <= int(os.environ.get("SHOW", "3")):
            print("=====", c.id, r.crash, m.crash)
            print(c.prog.decode("latin1"))
            for a, x, y in d:
                print("  --", a); print("     real :", repr(x)[-600:]); print("     model:", repr(y)[-600:])
            if r.crash: print(r.raw_err.decode("latin1")[-800:])
print("cases", len(cases), "diffs", nd, "inconclusive", ninc, "with-diag", nerr, "real %.1fs model %.1fs" % (t1 - t0, t2 - t1))
cleanup_scratch()
from collections import Counter
cnt = Counter()
for c, r in zip(cases, real):
    if r.diags:
        cnt[(r.diags[0].kind, r.diags[0].text.split("\n")[0][:70])] += 1
for k, v in cnt.most_common(25): print(v, k)
