#!/usr/bin/env python3
"""known findings: /verif/known_findings.json is read, never written, by the checks.
An *open* entry suppresses only failing cases that match its signature; *fixed* entries suppress nothing."""
import json, os, re
VERIF = os.path.dirname(os.path.dirname(os.path.abspath(__file__)))

def load():
    p = os.path.join(VERIF, "known_findings.json")
    if not os.path.exists(p): return []
    return json.load(open(p)).get("findings", [])

def match(pid, case, real, model, oracle_msgs, diffs):
    for f in load():
        if f.get("status") != "open" or f.get("property") != pid: continue
        sig = f.get("signature", {})
        prog = case.prog.decode("latin1")
        if "program_regex" in sig and not re.search(sig["program_regex"], prog, re.S): continue
        if "feature" in sig and sig["feature"] not in case.meta.get("features", []): continue
        if "observable" in sig:
            text = " ".join(oracle_msgs) + " " + " ".join(a for a, _, _ in diffs)
            if sig["observable"] not in text: continue
        return f
    return None
