#!/usr/bin/env python3
"""Confirm a seeded change (patch + demo) in a scratch worktree, then run the property's check against it in /repo and undo it.
usage: seedtest.py <dir with patch.diff, demo.pseudo, meta.json> [--checks C02,C05] [--noconfirm]"""
import sys, os, json, subprocess, shutil, time
VERIF = os.path.dirname(os.path.dirname(os.path.abspath(__file__)))
SLOT = os.environ.get("SEEDTEST_SLOT", "")   # several seedtests may run side by side, one slot each
WT = "/tmp/mut/wt-verify" + SLOT

def sh(cmd, **kw):
    return subprocess.run(cmd, shell=True, capture_output=True, text=True, **kw)

def confirm(d):
    """returns dict(ctest_ok, demo_differs, out_plain, out_patched)"""
    if not os.path.isdir(WT):
        r = sh("git -C /repo worktree add -q --detach %s HEAD" % WT); assert r.returncode == 0, r.stderr
    sh("git -C %s checkout -q --detach $(git -C /repo rev-parse HEAD) && git -C %s checkout -- ." % (WT, WT))
    def build():
        r = sh("cd %s && cmake -G Ninja -B _build -S . >/dev/null && cmake --build _build 2>&1 | tail -3" % WT)
        return r.returncode == 0 and "FAILED" not in r.stdout
    def run_demo():
        rd = os.path.join(WT, "_demo"); shutil.rmtree(rd, ignore_errors=True); os.makedirs(rd)
        for f in os.listdir(d):
            if f not in ("patch.diff", "expected.txt", "broken.txt", "meta.json"):
                src = os.path.join(d, f)
                if os.path.isfile(src): shutil.copy(src, rd)
        stdin = open(os.path.join(d, "demo.stdin"), "rb").read() if os.path.exists(os.path.join(d, "demo.stdin")) else b""
        meta = json.load(open(os.path.join(d, "meta.json")))
        how = json.dumps(meta)
        outs = []
        variants = ["%s/_build/PseudoEngine2 demo.pseudo" % WT]
        if "-p" in how or "pedantic" in how: variants.append("%s/_build/PseudoEngine2 -p demo.pseudo" % WT)
        if "< demo.pseudo" in how or "stdin" in how or "REPL" in how: variants.append("%s/_build/PseudoEngine2 < demo.pseudo" % WT)
        for cmd in variants:
            for rep in range(2):   # run twice in the same directory: some demos need a second process
                p = subprocess.run(cmd, shell=True, cwd=rd, input=stdin if "<" not in cmd else None, capture_output=True)
                outs.append((p.stdout, p.stderr.replace(WT.encode(), b""), p.returncode))
        return outs
    ok0 = build(); plain = run_demo()
    r = sh("git -C %s apply %s" % (WT, os.path.join(d, "patch.diff")))
    if r.returncode != 0: return dict(error="patch does not apply: " + r.stderr)
    ok1 = build()
    t = sh("cd %s && ctest --test-dir _build -j8 2>&1 | tail -3" % WT)
    ctest_ok = "100% tests passed" in t.stdout
    patched = run_demo()
    sh("git -C %s checkout -- ." % WT)
    return dict(builds=ok0 and ok1, ctest_ok=ctest_ok, demo_differs=(plain != patched), plain=repr(plain)[:600], patched=repr(patched)[:600])

SEEDREPO = "/tmp/mut/seedrepo" + SLOT

def run_checks(d, pids, tier="quick"):
    """run the checks against a scratch export of /repo HEAD with the patch applied (VERIF_REPO); /repo itself is not touched,
    so registered checks can run at the same time. (Equivalent to: git -C /repo apply; run; git -C /repo checkout -- .)"""
    res = {}
    shutil.rmtree(SEEDREPO, ignore_errors=True); os.makedirs(SEEDREPO)
    r = sh("git -C /repo archive HEAD | tar -x -C %s" % SEEDREPO); assert r.returncode == 0, r.stderr
    r = sh("patch -p1 -s -d %s < %s" % (SEEDREPO, os.path.join(d, "patch.diff"))); assert r.returncode == 0, r.stdout + r.stderr
    try:
        for pid in pids:
            t0 = time.time()
            env = dict(os.environ); env["VERIF_DEV"] = os.environ.get("VERIF_DEV", "1"); env["VERIF_REPO"] = SEEDREPO
            p = subprocess.run(["python3", os.path.join(VERIF, "harness", "check.py"), pid, "--tier", tier], cwd=VERIF, capture_output=True, text=True, env=env)
            viol = [l for l in p.stdout.split("\n") if l.startswith("VIOLATION")]
            allpaths = [l.split("replay=")[1].split()[0] for l in viol if "replay=" in l]
            res[pid] = dict(exit=p.returncode, violations=viol[:3], summary=p.stdout.strip().split("\n")[-1][:200], wall=round(time.time() - t0))
            # keep one replay for the record
            for v in viol[:1]:
                path = v.split("replay=")[1].split()[0]
                if os.path.exists(path):
                    shutil.copy(path, os.path.join(d, "replay-%s.json" % pid))
            for path in allpaths:
                # replays of a seeded change are not findings about /repo
                if path.startswith(os.path.join(VERIF, "replays")) and os.path.exists(path): os.remove(path)
    finally:
        shutil.rmtree(SEEDREPO, ignore_errors=True)
    return res

if __name__ == "__main__":
    d = os.path.abspath(sys.argv[1])
    meta = json.load(open(os.path.join(d, "meta.json")))
    pids = [meta["property"]]
    for a in sys.argv[2:]:
        if a.startswith("--checks"): pids = a.split("=")[1].split(",")
    out = {}
    if "--noconfirm" not in sys.argv:
        out["confirm"] = confirm(d)
    out["checks"] = run_checks(d, pids)
    print(json.dumps(out, indent=1))
    json.dump(out, open(os.path.join(d, "result.json"), "w"), indent=1)
