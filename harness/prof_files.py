#!/usr/bin/env python3
"""C13 record round trip, C14 random-file sequence, C15 text files / EOF, C16 handle state machine."""
import itertools, random, struct
from core import Case

def build(P):
    repl_case, sizes, chunks, rng_for = P["repl_case"], P["sizes"], P["chunks"], P["rng_for"]
    G, render, strlit, charlit = P["G"], P["render"], P["strlit"], P["charlit"]

    def chr_expr(code):
        return "CHR(%d)" % code

    def str_expr(bs):
        """expression building an arbitrary byte string"""
        if all(32 <= b < 127 and b not in (34, 92) for b in bs):
            return '"' + bytes(bs).decode("latin1") + '"'
        parts = []
        cur = ""
        for b in bs:
            if 32 <= b < 127 and b not in (34, 92): cur += chr(b)
            else:
                if cur: parts.append('"%s"' % cur); cur = ""
                parts.append("CHR(%d)" % b)
        if cur: parts.append('"%s"' % cur)
        if len(parts) == 1 and parts[0].startswith("CHR"): return '"" & ' + parts[0]
        return " & ".join(parts) if parts else '""'

    # ------------------------------------------------------------------ C13
    def roundtrip_prog(decls, sets, var, checks, pos, others=3):
        """writes filler records, the value at record `pos` (1, 2 or last), reads back in-session and after reopen; a second program reads it in a new process"""
        L = list(decls) + ["DECLARE filler : INTEGER", "filler <- 424242", "OPENFILE \"r.dat\" FOR RANDOM"]
        total = others
        at = {1: 1, 2: 2, "last": total}[pos]
        for k in range(1, total + 1):
            L.append("SEEK \"r.dat\", %d" % k)
            L.append("PUTRECORD \"r.dat\", %s" % (var if k == at else "filler"))
        return L, at

    def c13_cases(tier, seed):
        r = rng_for(seed, "C13")
        progs = []
        def add(cid, decls, sets, var, reset, dump, pos, unit):
            # program 1: write, read back in session and after reopen; program 2 (separate process, same directory) is emulated by a second case with the file pre-seeded by the model:
            L, at = roundtrip_prog(decls, sets, var, None, pos)
            P1 = list(decls) + list(sets) + L[len(decls):]
            P1 += list(reset) + ["SEEK \"r.dat\", %d" % at, "GETRECORD \"r.dat\", %s" % var] + [d.replace("@", "same ") for d in dump]
            P1 += ["CLOSEFILE \"r.dat\""] + list(reset) + ["OPENFILE \"r.dat\" FOR RANDOM", "SEEK \"r.dat\", %d" % at, "GETRECORD \"r.dat\", %s" % var] + [d.replace("@", "reopen ") for d in dump]
            P1 += ["SEEK \"r.dat\", %d" % (1 if at != 1 else 2), "GETRECORD \"r.dat\", filler", "OUTPUT \"filler \", filler"]
            # a session that only overwrites (nothing appended): the new value must be what a later session reads
            P1 += list(reset) + ["SEEK \"r.dat\", %d" % at, "PUTRECORD \"r.dat\", %s" % var, "CLOSEFILE \"r.dat\""] + list(sets)
            P1 += ["OPENFILE \"r.dat\" FOR RANDOM", "SEEK \"r.dat\", %d" % at, "GETRECORD \"r.dat\", %s" % var] + [d.replace("@", "overwritten ") for d in dump] + ["CLOSEFILE \"r.dat\""]
            # a later session that ONLY appends (the value as record 4, a filler as record 5): a still later session must find both, and the old records
            P1 += ["OPENFILE \"r.dat\" FOR RANDOM", "SEEK \"r.dat\", 4", "PUTRECORD \"r.dat\", %s" % var, "SEEK \"r.dat\", 5", "PUTRECORD \"r.dat\", filler", "CLOSEFILE \"r.dat\""] + list(reset)
            P1 += ["OPENFILE \"r.dat\" FOR RANDOM", "SEEK \"r.dat\", 4", "GETRECORD \"r.dat\", %s" % var] + [d.replace("@", "appended ") for d in dump]
            P1 += ["filler <- 0", "SEEK \"r.dat\", 5", "GETRECORD \"r.dat\", filler", "OUTPUT \"appended filler \", filler"] + list(reset) + ["SEEK \"r.dat\", %d" % at, "GETRECORD \"r.dat\", %s" % var] + [d.replace("@", "old ") for d in dump] + ["CLOSEFILE \"r.dat\""]
            progs.append(Case(id=cid, prog=("\n".join(P1) + "\n").encode(), meta=dict(units=[unit], second=dict(decls=decls, reset=reset, var=var, dump=dump, at=at))))
        # all 256 CHAR codes: alone, first / middle / last field of a record
        for code in range(256):
            for layout in (["alone", "first", "middle", "last"] if (tier == "thorough" or code in (0, 9, 10, 13, 32, 35, 255) or code % 16 == 0) else ["alone", "middle"]):
                if layout == "alone":
                    add("C13-chr-%d-alone" % code, ["DECLARE c : CHAR"], ["c <- CHR(%d)" % code], "c", ["c <- 'x'"], ["OUTPUT \"@\", ASC(c)"], r.choice([1, 2, "last"]), "chr/%d/alone" % code)
                else:
                    fields = {"first": ["c : CHAR", "n : INTEGER", "s : STRING"], "middle": ["n : INTEGER", "c : CHAR", "s : STRING"], "last": ["n : INTEGER", "s : STRING", "c : CHAR"]}[layout]
                    decls = ["TYPE R"] + ["DECLARE " + f for f in fields] + ["ENDTYPE", "DECLARE v : R"]
                    sets = ["v.c <- CHR(%d)" % code, "v.n <- 77", "v.s <- \"tail\""]
                    reset = ["v.c <- 'x'", "v.n <- 0", "v.s <- \"\""]
                    dump = ["OUTPUT \"@\", ASC(v.c), \" \", v.n, \" [\", v.s, \"]\""]
                    add("C13-chr-%d-%s" % (code, layout), decls, sets, "v", reset, dump, r.choice([1, 2, "last"]), "chr/%d/%s" % (code, layout))
        # strings over the adversarial alphabet
        alpha = [10, 35, 32, 48, 65, 34]
        maxlen = 4 if tier == "thorough" else 3
        strs = [()]
        for n in range(1, maxlen + 1):
            strs += list(itertools.product(alpha, repeat=n))
        if tier == "quick": strs = r.sample(strs, 90) + [(), (10,), (35,), (10, 35), (35, 10), (10, 10), (32,), (10, 35, 10)]
        for s in strs:
            for pos in ([1, 2, "last"] if tier == "thorough" else [r.choice([1, 2, "last"])]):
                add("C13-str-%s-%s" % (bytes(s).hex(), pos), ["DECLARE s : STRING"], ["s <- " + str_expr(list(s))], "s", ["s <- \"reset\""],
                    ["OUTPUT \"@\", LENGTH(s), \" [\", s, \"]\""], pos, "str/%s/%s" % (bytes(s).hex(), pos))
        for i in range(sizes(tier, 60, 1500)):
            bs = [r.randrange(256) for _ in range(r.randint(5, 60))]
            add("C13-rstr-%d" % i, ["DECLARE s : STRING"], ["s <- " + str_expr(bs)], "s", ["s <- \"reset\""], ["OUTPUT \"@\", LENGTH(s), \" [\", s, \"]\""], r.choice([1, 2, "last"]), "rstr/%d" % i)
        # INTEGER / REAL boundary and random
        ints = [0, 1, -1, 9223372036854775807, -9223372036854775807, 2**31, -2**31, 10**18] + [r.randint(-2**63 + 1, 2**63 - 1) for _ in range(sizes(tier, 20, 400))]
        for v in ints:
            lit = str(v) if v >= 0 else "- %d" % -v
            add("C13-int-%d" % v, ["DECLARE n : INTEGER"], ["n <- " + lit], "n", ["n <- 5"], ["OUTPUT \"@\", n"], r.choice([1, 2, "last"]), "int/%d" % v)
        add("C13-intmin", ["DECLARE n : INTEGER"], ["n <- - 9223372036854775807 - 1"], "n", ["n <- 5"], ["OUTPUT \"@\", n"], 1, "int/min")
        # REAL: exactness observed inside the language: keep x, read into y, print x = y, re-PUT y and compare file bytes through the model
        reals = ["0.1", "1.0 / 3", "2.0 / 3", "1.5", "123456789.123456789", "0.000001", "1.0 / 7", "100.0 / 3", "2.5 * 1000000000", "1.0 / 1000000", "9007199254740993.0", "0.1 + 0.2", "5.0 / 9 * 1000"]
        for i in range(sizes(tier, 40, 1500)):
            a = r.randint(1, 10**r.randint(1, 15)); b = r.randint(1, 10**r.randint(1, 9))
            reals.append("%d.0 / %d" % (a, b))
        for i, e in enumerate(reals):
            decls = ["DECLARE x, y : REAL"]
            add("C13-real-%d" % i, decls, ["x <- " + e, "y <- x"], "y", ["y <- 0.5"], ["OUTPUT \"@\", x = y, \" \", y"], r.choice([1, 2, "last"]), "real/%s" % e)
        # BOOLEAN, DATE, enum, arrays, records with nested records and array fields
        add("C13-bool", ["DECLARE b : BOOLEAN"], ["b <- TRUE"], "b", ["b <- FALSE"], ["OUTPUT \"@\", b"], 2, "bool")
        add("C13-date", ["DECLARE d : DATE"], ["d <- 29/2/2024"], "d", ["d <- 1/1/2000"], ["OUTPUT \"@\", d"], 1, "date")
        add("C13-date0", ["DECLARE d : DATE", "DECLARE e : DATE"], [], "d", ["d <- 1/1/2000"], ["OUTPUT \"@\", d"], 1, "date-unset")
        add("C13-enum", ["TYPE Col = (Red, Green, Blue)", "DECLARE e : Col"], ["e <- Blue"], "e", ["e <- Red"], ["OUTPUT \"@\", e"], "last", "enum")
        for et, vals, rv in [("INTEGER", ["1", "2", "3"], "0"), ("BOOLEAN", ["TRUE", "FALSE", "TRUE"], "FALSE"), ("STRING", ['"a b"', '"#"', '""'], '"r"'), ("CHAR", ["' '", "'#'", "CHR(10)"], "'r'"), ("REAL", ["0.1", "2.5", "1.0/3"], "9.5"), ("DATE", ["1/1/2001", "2/2/2002", "3/3/2003"], "9/9/1999")]:
            decls = ["DECLARE a : ARRAY[1:3] OF %s" % et]
            sets = ["a[%d] <- %s" % (k + 1, v) for k, v in enumerate(vals)]
            reset = ["a[%d] <- %s" % (k + 1, rv) for k in range(3)]
            dump = ["OUTPUT \"@%d [\", a[%d], \"]\"" % (k, k) for k in (1, 2, 3)] if et != "CHAR" else ["OUTPUT \"@%d \", ASC(a[%d])" % (k, k) for k in (1, 2, 3)]
            add("C13-arr-%s" % et, decls, sets, "a", reset, dump, 2, "arr/" + et)
        nrec = sizes(tier, 150, 4000)
        rec_gen = None
        import prof_data
        for i in range(nrec):
            rr = rng_for(seed, "C13rec", i)
            tl, top, leaves = rec_shape(rr)
            sets = ["v%s <- %s" % (p, val(rr, t)) for p, t in leaves]
            reset = ["v%s <- %s" % (p, RESET[t]) for p, t in leaves]
            dump = [("OUTPUT \"@%s [\", v%s, \"]\"" % (p, p)) if t != "CHAR" else ("OUTPUT \"@%s \", ASC(v%s)" % (p, p)) for p, t in leaves]
            add("C13-rec-%d" % i, tl + ["DECLARE v : %s" % top], sets, "v", reset, dump, rr.choice([1, 2, "last"]), "rec/%d" % i)
        for ch in chunks(progs, 300):
            yield ("round-trip", ch)
        # (stored type, reading type) mismatch matrix
        tys = {"INTEGER": "5", "REAL": "2.5", "BOOLEAN": "TRUE", "CHAR": "'c'", "STRING": '"str"', "DATE": "1/2/2003", "Col": "Green", "Shape": "Line", "RecA": None, "RecB": None, "RecA2": None, "Col2": "Mid", "ArrI": None, "ArrS": None, "ArrI3": None, "ArrR": None}
        # RecA2 has RecA's layout and Col2 the size of Col: only the type NAME differs
        pre = ["TYPE Col = (Red, Green, Blue)", "TYPE Shape = (Dot, Line)", "TYPE Col2 = (Low, Mid, High)", "TYPE RecA", "DECLARE f : INTEGER", "ENDTYPE", "TYPE RecB", "DECLARE g : STRING", "ENDTYPE", "TYPE RecA2", "DECLARE f : INTEGER", "ENDTYPE"]
        progs = []
        def decl(n, t):
            if t == "ArrI": return "DECLARE %s : ARRAY[1:2] OF INTEGER" % n
            if t == "ArrS": return "DECLARE %s : ARRAY[1:2] OF STRING" % n
            if t == "ArrI3": return "DECLARE %s : ARRAY[1:3] OF INTEGER" % n
            if t == "ArrR": return "DECLARE %s : ARRAY[1:2] OF RecA" % n
            return "DECLARE %s : %s" % (n, t)
        for st in tys:
            for rt in tys:
                L = pre + [decl("src", st), decl("dst", rt)]
                if tys[st]: L.append("src <- " + tys[st])
                L += ["OPENFILE \"m.dat\" FOR RANDOM", "PUTRECORD \"m.dat\", src", "SEEK \"m.dat\", 1", "OUTPUT \"reading\"", "GETRECORD \"m.dat\", dst", "OUTPUT \"read ok\""]
                progs.append(Case(id="C13-mis-%s-%s" % (st, rt), prog=("\n".join(L) + "\n").encode(), meta=dict(units=["mis/%s/%s" % (st, rt)], mismatch=(st != rt))))
        yield ("type-mismatch", progs)

    RESET = {"INTEGER": "0", "STRING": '"r"', "REAL": "9.5", "BOOLEAN": "FALSE", "CHAR": "'r'", "DATE": "9/9/1999"}
    def val(r, t):
        if t == "INTEGER": return str(r.randint(0, 10**6))
        if t == "STRING": return strlit("".join(r.choice("ab #\n0") for _ in range(r.randint(0, 5))))
        if t == "REAL": return "%d.0 / %d" % (r.randint(1, 999), r.randint(1, 99))
        if t == "BOOLEAN": return r.choice(["TRUE", "FALSE"])
        if t == "CHAR": return "CHR(%d)" % r.choice([10, 32, 35, 65, 0, 200])
        if t == "DATE": return "%d/%d/%d" % (r.randint(1, 28), r.randint(1, 12), r.randint(1, 9999))

    def rec_shape(r):
        lines = []
        cnt = [0]
        def mk(level):
            cnt[0] += 1
            name = "S%d" % cnt[0]
            body, leaves = [], []
            narr = 0
            for fi in range(r.randint(1, 4)):
                fn = "m%d_%d" % (cnt[0], fi)
                k = r.choice(["prim", "prim", "arr", "arr", "rec"] if level > 1 else ["prim", "prim", "arr"])
                if k == "arr" and narr >= 3: k = "prim"
                if k == "prim":
                    t = r.choice(["INTEGER", "STRING", "REAL", "BOOLEAN", "CHAR", "DATE"])
                    body.append("DECLARE %s : %s" % (fn, t)); leaves.append(("." + fn, t))
                elif k == "arr":
                    narr += 1
                    t = r.choice(["INTEGER", "STRING", "BOOLEAN", "CHAR"])
                    n = r.randint(1, 3)
                    body.append("DECLARE %s : ARRAY[1:%d] OF %s" % (fn, n, t))
                    for i in range(1, n + 1): leaves.append((".%s[%d]" % (fn, i), t))
                else:
                    sub, sl = mk(level - 1)
                    body.append("DECLARE %s : %s" % (fn, sub))
                    for p, t in sl: leaves.append(("." + fn + p, t))
            lines.extend(["TYPE " + name] + body + ["ENDTYPE"])
            return name, leaves
        top, leaves = mk(r.randint(1, 3))
        return lines, top, leaves

    def c13_oracle(c, r, m):
        if "mismatch" in c.meta:
            if c.meta["mismatch"]:
                if b"read ok" in r.out or not (r.exit == 1 and r.diags and r.diags[0].kind == "runtime"):
                    return ["a record of another type was read without a runtime error: %r" % r.out[-60:]]
            return []
        # same-session and after-reopen dumps must be identical lines (model-free); exact expected text comes from the model comparison
        same = [l[5:] for l in r.out.split(b"\n") if l.startswith(b"same ")]
        reop = [l[7:] for l in r.out.split(b"\n") if l.startswith(b"reopen ")]
        msgs = []
        if r.exit != 0: msgs.append("PUTRECORD/GETRECORD round trip ended in an error: %s" % (r.diags[0].text if r.diags else r.crash))
        elif same != reop: msgs.append("value read in the same session %r differs from the value read after CLOSEFILE/OPENFILE %r" % (same[:3], reop[:3]))
        elif b"filler 424242" not in r.out: msgs.append("a neighbouring record did not read back: %r" % r.out[-80:])
        elif b"x = y" in c.prog and b"TRUE " not in r.out: msgs.append("REAL did not read back bit-exactly: %r" % r.out[:80])
        return msgs

    C13 = dict(cases=c13_cases, model_is_oracle=("out", "exit", "files", "termination"), oracle=c13_oracle, builds=["normal", "san"], nontrivial=lambda c, r, m: b"same " in r.out or "mismatch" in c.meta,
               rule="PUTRECORD then GETRECORD of: all 256 CHAR codes alone / first / middle / last field; strings over {LF,#,blank,0,A,\"} up to length 3 (quick) / 4 and random byte strings; "
                    "boundary and random INTEGER; REAL values compared inside the language (x = y) and through the file bytes; BOOLEAN, DATE (also never assigned), enum, arrays of six "
                    "element types, random records with nested records and up to 3 array fields; each as record 1, 2 or last among filler records, read back in the same session and after "
                    "CLOSEFILE/OPENFILE (final file bytes compared with the model = what a later process loads); every (stored, reading) type pair for the mismatch clause",
               trusted=["REAL round trip rests on the 17-significant-digit law of binary64, used as a hypothesis in C13_load_dump; exercised here on random quotients"])

    # ------------------------------------------------------------------ C14
    def c14_cases(tier, seed):
        r = rng_for(seed, "C14")
        depth = 6 if tier == "thorough" else 4
        # alphabet on one file: OPEN, CLOSE, SEEK k, PUT v, GET, RESTART(=new process: split into two cases joined through the file; emulated by CLOSE+OPEN in-process plus model file compare)
        payloads = ['"a"', '"x" & CHR(10) & "y"', '"#h"', '""', 'CHR(10) & "#"', '"end" & CHR(10)', '"" & CHR(10)', '"a" & CHR(10) & CHR(10)', '"#" & CHR(10) & "#" & CHR(10)']
        def history_prog(ops, two=False):
            L = ["DECLARE v, w : STRING", "v <- \"init\""]
            for op in ops:
                f = op[1] if len(op) > 1 and isinstance(op[1], str) and op[1].endswith(".dat") else "a.dat"
                if op[0] == "open": L.append("OPENFILE \"%s\" FOR RANDOM" % op[1])
                elif op[0] == "close": L.append("CLOSEFILE \"%s\"" % op[1])
                elif op[0] == "seek": L.append("SEEK \"%s\", %d" % (op[1], op[2]))
                elif op[0] == "put": L += ["v <- %s" % op[2], "PUTRECORD \"%s\", v" % op[1]]
                elif op[0] == "get": L += ["w <- \"unset\"", "GETRECORD \"%s\", w" % op[1], "OUTPUT \"got [\", w, \"] \", LENGTH(w)"]
                L.append("OUTPUT \"ok %s\"" % op[0])
            return L
        # exhaustive histories as REPL sessions (a rejected step is an entry error and the history goes on)
        ops_alpha = []
        for f in ["a.dat"]:
            ops_alpha += [("open", f), ("close", f), ("put", f, payloads[0]), ("put", f, payloads[1]), ("get", f)] + [("seek", f, k) for k in range(0, 5)]
        hist = []
        if tier == "thorough":
            space = itertools.product(ops_alpha, repeat=depth - 1)
            for h in space:
                hist.append([("open", "a.dat")] + list(h))
                if len(hist) >= 120000: break
        else:
            for h in itertools.product(ops_alpha, repeat=3):
                hist.append([("open", "a.dat")] + list(h))
        hist = hist if tier == "thorough" else r.sample(hist, 500)
        cases = []
        for i, h in enumerate(hist):
            L = history_prog(h)
            cases.append(repl_case("C14-ex-%d" % i, L + ["CLOSEFILE \"a.dat\"", "OPENFILE \"a.dat\" FOR RANDOM", "SEEK \"a.dat\", 1", "w <- \"none\"", "GETRECORD \"a.dat\", w", "w"], meta=dict(units=["h%d" % i], noshrink=True)))
        for ch in chunks(cases, 400):
            yield ("exhaustive-histories", ch)
        # random long histories on two files, with an explicit list model in the harness
        n = sizes(tier, 250, 4000)
        cases = []
        for i in range(n):
            rr = rng_for(seed, "C14r", i)
            files = ["a.dat", "b.dat"]
            state = {f: dict(open=False, recs=None, cur=0) for f in files}
            disk = {f: [] for f in files}
            ents, expect = ["DECLARE v, w : STRING"], []
            for step in range(rr.randint(10, 60)):
                f = rr.choice(files); s = state[f]
                op = rr.choice(["open", "close", "seek", "put", "put", "get", "get", "seek"])
                if op == "open":
                    ents.append("OPENFILE \"%s\" FOR RANDOM" % f)
                    if s["open"]: expect.append("err")
                    else: s["open"] = True; s["recs"] = list(disk[f]); s["cur"] = 0; expect.append("ok")
                elif op == "close":
                    ents.append("CLOSEFILE \"%s\"" % f)
                    if not s["open"]: expect.append("err")
                    else: disk[f] = list(s["recs"]); s["open"] = False; expect.append("ok")
                elif op == "seek":
                    k = rr.randint(0, (len(s["recs"]) if s["open"] else 2) + 2)
                    ents.append("SEEK \"%s\", %d" % (f, k))
                    if not s["open"] or k < 1 or k > len(s["recs"]) + 1: expect.append("err")
                    else: s["cur"] = k - 1; expect.append("ok")
                elif op == "put":
                    pv = rr.choice(payloads + ['"p%d"' % step])
                    ents.append("v <- %s" % pv); expect.append("ok")
                    ents.append("PUTRECORD \"%s\", v" % f)
                    if not s["open"]: expect.append("err")
                    else:
                        val = eval_payload(pv)
                        if s["cur"] < len(s["recs"]): s["recs"][s["cur"]] = val
                        else: s["recs"].append(val)
                        expect.append("ok")
                elif op == "get":
                    ents.append("GETRECORD \"%s\", w" % f)
                    if not s["open"] or s["cur"] >= len(s["recs"]): expect.append("err")
                    else:
                        expect.append("ok"); ents.append("OUTPUT \"[\", w, \"]\""); expect.append("out:[" + s["recs"][s["cur"]] + "]")
            cases.append(repl_case("C14-rnd-%d" % i, ents, meta=dict(units=["r%d" % i], expect=expect, noshrink=True)))
        for ch in chunks(cases, 300):
            yield ("random-histories", ch)
        # restart: the file written by one process is loaded by another (two cases; the second one's file comes from the model's output of the first — compared through "files")
        cases = []
        for i in range(sizes(tier, 120, 2000)):
            rr = rng_for(seed, "C14p", i)
            recs = [rr.choice(["a", "x\ny", "#h", "", "\n#", "two\n\nlines", " "]) for _ in range(rr.randint(0, 5))]
            content = b"".join(("STRING %d %s\n" % (len(s.replace("\n", "\n#")), s.replace("\n", "\n#"))).encode("latin1") for s in recs)
            L = ["DECLARE w : STRING", "OPENFILE \"p.dat\" FOR RANDOM"]
            for k in range(1, len(recs) + 2):
                L += ["SEEK \"p.dat\", %d" % k] + (["GETRECORD \"p.dat\", w", "OUTPUT \"%d [\", w, \"]\"" % k] if k <= len(recs) else ["OUTPUT \"end\""])
            L += ["SEEK \"p.dat\", %d" % (len(recs) + 2)]
            exp = "".join("%d [%s]\n" % (k + 1, s) for k, s in enumerate(recs)) + "end\n"
            cases.append(Case(id="C14-load-%d" % i, prog=("\n".join(L) + "\n").encode(), files={"p.dat": ("f", content)}, meta=dict(units=["load%d" % i], expect_out=exp)))
        yield ("restart-load", cases)

        # typed histories: the same alphabet with records of every other type (the adversarial CHAR codes, REALs that need 17 digits, INTEGER, DATE, BOOLEAN, an enum,
        # a record with CHAR / REAL / STRING members), each ending with close + reopen + a read of every record; and sessions that ONLY append to an existing file
        TYPED = {
            "CHAR": ("CHAR", ["CHR(10)", "'#'", "' '", "'A'", "CHR(0)", "CHR(255)", "CHR(13)", "CHR(34)"], lambda w: "ASC(%s)" % w),
            "REAL": ("REAL", ["0.1 + 0.2", "1.0 / 3.0", "2.5", "1e22 / 3.0", "0.1 * 3.0", "123456789.123456789", "- 1.0 / 7.0", "5e-324 * 1.0"], lambda w: "%s, \" \", (%s - 0.3) * 1e17, \" \", %s = 0.1 + 0.2, \" \", %s = 1.0 / 3.0" % (w, w, w, w)),
            "INTEGER": ("INTEGER", ["0", "- 1", "9223372036854775807", "- 9223372036854775807 - 1", "42"], lambda w: w),
            "DATE": ("DATE", ["1/1/2000", "29/2/2024", "31/12/9999", "1/1/1"], lambda w: "%s, \" \", DAYINDEX(%s)" % (w, w)),
            "BOOLEAN": ("BOOLEAN", ["TRUE", "FALSE"], lambda w: w),
            "Hue": ("Hue", ["Crimson", "Amber", "Teal"], lambda w: w),
            "Mix": ("Mix", None, lambda w: "ASC(%s.c), \" \", %s.x = 0.1 + 0.2, \" [\", %s.s, \"] \", %s.a[1], %s.a[2]" % (w, w, w, w, w)),
        }
        cases = []
        for i in range(sizes(tier, 160, 3000)):
            rr = rng_for(seed, "C14t", i)
            tname = rr.choice(sorted(TYPED))
            ty, pays, show = TYPED[tname]
            ents = ["TYPE Hue = (Crimson, Amber, Teal)", "TYPE Mix\nDECLARE c : CHAR\nDECLARE x : REAL\nDECLARE s : STRING\nDECLARE a : ARRAY[1:2] OF CHAR\nENDTYPE", "DECLARE v, w : %s" % ty, "OPENFILE \"t.dat\" FOR RANDOM"]
            nrec = 0
            def setv():
                if tname == "Mix":
                    return ["v.c <- %s" % rr.choice(TYPED["CHAR"][1]), "v.x <- %s" % rr.choice(TYPED["REAL"][1]), "v.s <- %s" % rr.choice(payloads), "v.a[1] <- %s" % rr.choice(TYPED["CHAR"][1]), "v.a[2] <- %s" % rr.choice(TYPED["CHAR"][1])]
                return ["v <- %s" % rr.choice(pays)]
            for step in range(rr.randint(4, 25)):
                op = rr.choice(["seek", "put", "put", "get", "reopen"])
                if op == "seek": ents.append("SEEK \"t.dat\", %d" % rr.randint(0, nrec + 2))
                elif op == "put": ents += setv() + ["PUTRECORD \"t.dat\", v"]; nrec += 1
                elif op == "get": ents += ["GETRECORD \"t.dat\", w", "OUTPUT \"got \", " + show("w")]
                else: ents += ["CLOSEFILE \"t.dat\"", "OPENFILE \"t.dat\" FOR RANDOM"]
            ents += ["CLOSEFILE \"t.dat\"", "OPENFILE \"t.dat\" FOR RANDOM"]
            for k in range(1, nrec + 2):
                ents += ["SEEK \"t.dat\", %d" % k, "GETRECORD \"t.dat\", w", "OUTPUT \"rec %d \", " % k + show("w")]
            ents.append("CLOSEFILE \"t.dat\"")
            cases.append(repl_case("C14-typed-%d" % i, ents, meta=dict(units=["t%d" % i], noshrink=True)))
        for ch in chunks(cases, 200):
            yield ("typed-histories", ch)
        cases = []
        k_ = 0
        for tname in ["STRING", "INTEGER", "CHAR"]:
            lit = {"STRING": lambda n: '"r%d" & CHR(10) & "x"' % n if n % 2 else '"r%d"' % n, "INTEGER": lambda n: str(100 + n), "CHAR": lambda n: "CHR(%d)" % (65 + n)}[tname]
            show = (lambda w: "ASC(%s)" % w) if tname == "CHAR" else (lambda w: "\"[\", %s, \"]\"" % w)
            for existing in range(0, 4):
                for sessions in range(1, 4):
                    for per in (1, 2):
                        k_ += 1
                        ents = ["DECLARE v, w : %s" % tname, "OPENFILE \"ap.dat\" FOR RANDOM"]
                        n = 0
                        for e in range(existing):
                            n += 1; ents += ["v <- %s" % lit(n), "PUTRECORD \"ap.dat\", v", "SEEK \"ap.dat\", %d" % (n + 1)]
                        ents.append("CLOSEFILE \"ap.dat\"")
                        for s_ in range(sessions):
                            ents.append("OPENFILE \"ap.dat\" FOR RANDOM")
                            for a in range(per):
                                n += 1; ents += ["SEEK \"ap.dat\", %d" % n, "v <- %s" % lit(n), "PUTRECORD \"ap.dat\", v"]
                            ents += ["SEEK \"ap.dat\", %d" % n, "GETRECORD \"ap.dat\", w", "OUTPUT \"session \", " + show("w"), "CLOSEFILE \"ap.dat\""]
                        ents.append("OPENFILE \"ap.dat\" FOR RANDOM")
                        for k in range(1, n + 2):
                            ents += ["SEEK \"ap.dat\", %d" % k, "GETRECORD \"ap.dat\", w", "OUTPUT \"rec %d \", " % k + show("w")]
                        ents.append("CLOSEFILE \"ap.dat\"")
                        cases.append(repl_case("C14-append-%d" % k_, ents, meta=dict(units=["ap%d" % k_], noshrink=True)))
        yield ("append-only-sessions", cases)

    def eval_payload(p):
        out = ""
        for part in p.split(" & "):
            part = part.strip()
            if part.startswith("CHR("): out += chr(int(part[4:-1]))
            else: out += part[1:-1]
        return out

    def c14_oracle(c, r, m):
        import core
        if "expect_out" in c.meta:
            exp = c.meta["expect_out"].encode("latin1")
            if not r.out.startswith(exp): return ["records loaded by a new process: expected %r, got %r" % (exp[:80], r.out[:120])]
            if not (r.exit == 1 and r.diags): return ["SEEK to n+2 was accepted"]
            return []
        exp = c.meta.get("expect")
        if not exp: return []
        from prof_expr import segments
        segs = segments(r.out)
        errs = r.raw_err.split(core.MARK)
        msgs = []
        # entry 0 is the DECLARE
        for i, e in enumerate(exp):
            seg = segs[i + 1] if i + 1 < len(segs) else b""
            er = errs[i + 1] if i + 1 < len(errs) else b""
            had_err = b"Error" in er
            if e == "err" and not had_err: msgs.append("step %d should have been rejected" % (i + 1))
            elif e == "ok" and had_err: msgs.append("step %d was rejected: %r" % (i + 1, er[:80]))
            elif e.startswith("out:") and seg.decode("latin1").rstrip("\n") != e[4:]:
                msgs.append("step %d read %r, the sequence model says %r" % (i + 1, seg.decode("latin1"), e[4:]))
            if msgs: break
        return msgs

    C14 = dict(cases=c14_cases, builds_quick=["normal", "san"], model_is_oracle=("out", "exit", "files", "termination"), oracle=c14_oracle, nontrivial=lambda c, r, m: True,
               rule="histories over {OPEN, CLOSE, SEEK k (0..4), PUT single-line, PUT multi-line, GET} on one file: a sample of depth 4 (quick) / all of depth 6 up to a cap (thorough), "
                    "each followed by close, reopen and a read of record 1, as REPL sessions compared with the model; random histories of 10..60 steps on two files judged step by step "
                    "by an explicit list-plus-cursor model in the harness; files written in advance and loaded by a fresh process (records with embedded line breaks), SEEK to n+2 rejected")

    # ------------------------------------------------------------------ C15
    def c15_cases(tier, seed):
        r = rng_for(seed, "C15")
        values = [('"plain"', "plain"), ('""', ""), ('" lead"', " lead"), ('"#x"', "#x"), ('"q\\"q"', 'q"q'), ("'c'", "c"), ("42", "42"), ("- 7", "-7"), ("TRUE", "TRUE"), ("FALSE", "FALSE"),
                  ("14/3/2020", "14/3/2020"), ("2.5", "2.5"), ("1.0 / 3", "0.333333"), ("100.0", "100"), ("0.1234567", "0.123457"), ("1000000.0 * 1000000.0", "1000000000000"),
                  # INTEGERs are written exactly, whatever their size; expressions and variables as well as literals
                  ("9007199254740993", "9007199254740993"), ("1234567890123456789", "1234567890123456789"), ("9223372036854775807", "9223372036854775807"), ("- 9223372036854775807", "-9223372036854775807"),
                  ("9007199254740992 + 1", "9007199254740993"), ("3037000499 * 3037000499", "9223372030926249001"), ("LENGTH(\"abc\")", "3"), ("7 DIV 2", "3"), ("7 / 2", "3.5"), ("'#'", "#"), ("\"a\" & 'b'", "ab")]
        sessions_max = 3 if tier == "thorough" else 2
        lines_max = 3 if tier == "thorough" else 2
        cases = []
        i = 0
        small = values[:6] if tier == "quick" else values[:8]
        combos = []
        for ns in range(1, sessions_max + 1):
            for counts in itertools.product(range(0, lines_max + 1), repeat=ns):
                combos.append(counts)
        for counts in combos:
            total = sum(counts)
            picks = list(itertools.product(range(len(small)), repeat=total)) if total <= 3 else []
            if len(picks) > 40 or not picks: picks = [tuple(r.randrange(len(values)) for _ in range(total)) for _ in range(25 if tier == "thorough" else 6)]
            for pk in picks:
                L = []; exp = []; k = 0
                for si, cnt in enumerate(counts):
                    L.append("OPENFILE \"t.txt\" FOR %s" % ("WRITE" if si == 0 else "APPEND"))
                    for _ in range(cnt):
                        e, txt = (small if total <= 3 and len(picks) > 0 and max(pk, default=0) < len(small) else values)[pk[k]]; k += 1
                        L.append("WRITEFILE \"t.txt\", %s" % e); exp.append(txt)
                    L.append("CLOSEFILE \"t.txt\"")
                L += ["OPENFILE \"t.txt\" FOR READ", "n <- 0", "WHILE NOT EOF(\"t.txt\")", "READFILE \"t.txt\", x", "n <- n + 1", "OUTPUT \"[\", x, \"]\"", "ENDWHILE", "OUTPUT \"count \", n", "CLOSEFILE \"t.txt\""]
                i += 1
                cases.append(Case(id="C15-h%d" % i, prog=("\n".join(L) + "\n").encode(), files={"t.txt": ("f", b"stale content\n")},
                                  meta=dict(units=["h%d" % i], expect="".join("[%s]\n" % t for t in exp) + "count %d\n" % len(exp))))
        for vi_, (e, txt) in enumerate(values):
            L = ["DECLARE held : INTEGER", "OPENFILE \"t.txt\" FOR WRITE", "WRITEFILE \"t.txt\", %s" % e, "WRITEFILE \"t.txt\", \"mid\"", "WRITEFILE \"t.txt\", %s" % e, "CLOSEFILE \"t.txt\"",
                 "OPENFILE \"t.txt\" FOR READ", "n <- 0", "WHILE NOT EOF(\"t.txt\")", "READFILE \"t.txt\", x", "n <- n + 1", "OUTPUT \"[\", x, \"]\"", "ENDWHILE", "OUTPUT \"count \", n", "CLOSEFILE \"t.txt\""]
            i += 1
            cases.append(Case(id="C15-v%d" % vi_, prog=("\n".join(L) + "\n").encode(), meta=dict(units=["v%d" % vi_], expect="[%s]\n[mid]\n[%s]\ncount 3\n" % (txt, txt))))
        for ch in chunks(cases, 400):
            yield ("write-histories", ch)
        # pre-existing files with and without a final line break; blank lines; CRLF is data here
        cases = []
        contents = [b"", b"a", b"a\n", b"a\nb", b"a\nb\n", b"\n", b"\n\n", b"a\n\nb\n", b" \n", b"a\r\nb\r\n", b"x" * 5000 + b"\n" + b"y", b"#\n#", b"\x00\xff\n"]
        for j in range(sizes(tier, 40, 1500)):
            contents.append(b"".join(bytes(r.choice([65, 66, 32, 35, 10, 10, 48]) for _ in range(r.randint(0, 30))) for _ in range(1)))
        for j, ct in enumerate(contents):
            L = ["OPENFILE \"p.txt\" FOR READ", "n <- 0", "WHILE NOT EOF(\"p.txt\")", "READFILE \"p.txt\", x", "n <- n + 1", "OUTPUT \"[\", x, \"]\"", "ENDWHILE", "OUTPUT \"count \", n"]
            lines = ct.split(b"\n")
            if lines and lines[-1] == b"": lines = lines[:-1]
            exp = b"".join(b"[" + l + b"]\n" for l in lines) + b"count %d\n" % len(lines)
            cases.append(Case(id="C15-pre-%d" % j, prog=("\n".join(L) + "\n").encode(), files={"p.txt": ("f", ct)}, meta=dict(units=["pre%d" % j], expect=exp.decode("latin1"))))
        yield ("pre-existing", cases)
        # append keeps content, write truncates; reading past the end
        shapes = ["OPENFILE \"k.txt\" FOR APPEND\nWRITEFILE \"k.txt\", \"new\"\nCLOSEFILE \"k.txt\"\nOPENFILE \"k.txt\" FOR READ\nWHILE NOT EOF(\"k.txt\")\nREADFILE \"k.txt\", x\nOUTPUT x\nENDWHILE",
                  "OPENFILE \"k.txt\" FOR WRITE\nCLOSEFILE \"k.txt\"\nOPENFILE \"k.txt\" FOR READ\nOUTPUT EOF(\"k.txt\")", "OPENFILE \"k.txt\" FOR READ\nREADFILE \"k.txt\", x\nREADFILE \"k.txt\", x\nREADFILE \"k.txt\", x\nOUTPUT \"[\", x, \"]\", EOF(\"k.txt\")",
                  "OPENFILE \"k.txt\" FOR READ\nDECLARE n : INTEGER\nREADFILE \"k.txt\", n", "OUTPUT EOF(\"k.txt\")", "OPENFILE \"k.txt\" FOR WRITE\nOUTPUT EOF(\"k.txt\")"]
        # the file statements inside routines: the READFILE target is a global, a local, a BYREF or BYVAL parameter, a global read by a function called from the loop condition;
        # WRITEFILE from a routine; the canonical loop split over two routines
        for kind, head, tail, call in [("proc", "PROCEDURE Rd()", "ENDPROCEDURE", "CALL Rd()"), ("fn", "FUNCTION Rd() RETURNS INTEGER", "RETURN 0\nENDFUNCTION", "dummy <- Rd()")]:
            shapes += [
                "\n".join(["DECLARE line : STRING", "line <- \"(nothing read yet)\"", head, "READFILE \"k.txt\", line", tail, "OPENFILE \"k.txt\" FOR READ", "WHILE NOT EOF(\"k.txt\")", call, "OUTPUT \"[\", line, \"]\"", "ENDWHILE", "CLOSEFILE \"k.txt\""]),
                "\n".join(["line <- \"(implicit global)\"", head, "READFILE \"k.txt\", line", "OUTPUT \"in [\", line, \"]\"", tail, "OPENFILE \"k.txt\" FOR READ", call, "OUTPUT \"[\", line, \"]\"", call, "OUTPUT \"[\", line, \"]\"", "OUTPUT EOF(\"k.txt\")"]),
                "\n".join(["DECLARE line : STRING", "line <- \"global\"", head, "DECLARE line : STRING", "READFILE \"k.txt\", line", "OUTPUT \"in [\", line, \"]\"", tail, "OPENFILE \"k.txt\" FOR READ", call, "OUTPUT \"[\", line, \"]\""]),
                "\n".join([head, "READFILE \"k.txt\", fresh", "OUTPUT \"in [\", fresh, \"]\"", tail, "OPENFILE \"k.txt\" FOR READ", call, "OUTPUT fresh"]),
                "\n".join([head, "OPENFILE \"k.txt\" FOR APPEND", "WRITEFILE \"k.txt\", \"from routine\"", "CLOSEFILE \"k.txt\"", tail, call, "OPENFILE \"k.txt\" FOR READ", "WHILE NOT EOF(\"k.txt\")", "READFILE \"k.txt\", x", "OUTPUT x", "ENDWHILE"]),
            ]
        # several files open at once, closed in every order (a close must close exactly its own file)
        for order in [("s", "d"), ("d", "s")]:
            cl = {"s": "CLOSEFILE \"k.txt\"", "d": "CLOSEFILE \"out.txt\""}
            shapes.append("\n".join(["OPENFILE \"k.txt\" FOR READ", "OPENFILE \"out.txt\" FOR WRITE", "WHILE NOT EOF(\"k.txt\")", "READFILE \"k.txt\", x", "WRITEFILE \"out.txt\", x", "ENDWHILE", cl[order[0]], "OUTPUT \"first closed\""] +
                                    (["WRITEFILE \"out.txt\", \"tail\""] if order[0] == "s" else ["OUTPUT EOF(\"k.txt\")"]) + [cl[order[1]], "OPENFILE \"out.txt\" FOR READ", "WHILE NOT EOF(\"out.txt\")", "READFILE \"out.txt\", y", "OUTPUT \"[\", y, \"]\"", "ENDWHILE"]))
            shapes.append("\n".join(["OPENFILE \"out.txt\" FOR WRITE", "OPENFILE \"k.txt\" FOR READ", "READFILE \"k.txt\", x", "WRITEFILE \"out.txt\", x", cl[order[0]], "OUTPUT \"first closed\""] +
                                    (["WRITEFILE \"out.txt\", \"tail\""] if order[0] == "s" else ["READFILE \"k.txt\", x", "OUTPUT x"]) + [cl[order[1]], "OPENFILE \"out.txt\" FOR READ", "WHILE NOT EOF(\"out.txt\")", "READFILE \"out.txt\", y", "OUTPUT \"[\", y, \"]\"", "ENDWHILE"]))
        for perm in itertools.permutations(["a1.txt", "a2.txt", "a3.txt"]):
            L = ["OPENFILE \"a1.txt\" FOR WRITE", "OPENFILE \"a2.txt\" FOR WRITE", "OPENFILE \"a3.txt\" FOR WRITE"]
            for k_, f_ in enumerate(perm):
                L += ["WRITEFILE \"a1.txt\", \"w%d\"" % k_, "WRITEFILE \"a2.txt\", \"w%d\"" % k_, "WRITEFILE \"a3.txt\", \"w%d\"" % k_, "CLOSEFILE \"%s\"" % f_, "OUTPUT \"closed %s\"" % f_]
            shapes.append("\n".join(L))
        shapes += [
            "DECLARE line : STRING\nPROCEDURE Rd(BYREF into : STRING)\nREADFILE \"k.txt\", into\nENDPROCEDURE\nOPENFILE \"k.txt\" FOR READ\nWHILE NOT EOF(\"k.txt\")\nCALL Rd(line)\nOUTPUT \"[\", line, \"]\"\nENDWHILE",
            "DECLARE line : STRING\nline <- \"kept\"\nPROCEDURE Rd(into : STRING)\nREADFILE \"k.txt\", into\nOUTPUT \"in [\", into, \"]\"\nENDPROCEDURE\nOPENFILE \"k.txt\" FOR READ\nCALL Rd(line)\nOUTPUT \"[\", line, \"]\"",
            "DECLARE line : STRING\nDECLARE n : INTEGER\nFUNCTION More() RETURNS BOOLEAN\nRETURN NOT EOF(\"k.txt\")\nENDFUNCTION\nPROCEDURE Each()\nREADFILE \"k.txt\", line\nn <- n + 1\nENDPROCEDURE\nOPENFILE \"k.txt\" FOR READ\nWHILE More()\nCALL Each()\nOUTPUT n, \" [\", line, \"]\"\nENDWHILE",
            "TYPE Rec\nDECLARE s : STRING\nENDTYPE\nDECLARE r : Rec\nDECLARE a : ARRAY[1:2] OF STRING\nOPENFILE \"k.txt\" FOR READ\nREADFILE \"k.txt\", r\nOUTPUT \"after\"",
            "DECLARE a : ARRAY[1:2] OF STRING\nOPENFILE \"k.txt\" FOR READ\nREADFILE \"k.txt\", a\nOUTPUT \"after\"",
        ]
        yield ("shapes", [Case(id="C15-shape-%d" % j, prog=(s + "\n").encode(), files={"k.txt": ("f", b"old1\nold2\n")}) for j, s in enumerate(shapes)])

    def c15_oracle(c, r, m):
        exp = c.meta.get("expect")
        if exp is None: return []
        if r.out.decode("latin1") != exp or r.exit != 0:
            return ["lines read back: expected %r, got %r (exit %d)" % (exp[:200], r.out.decode("latin1")[:200], r.exit)]
        return []

    C15 = dict(cases=c15_cases, builds_quick=["normal", "san"], oracle=c15_oracle, nontrivial=lambda c, r, m: b"count" in r.out or c.id.startswith("C15-shape"),
               rule="write histories (WRITE session then up to 1 (quick) / 2 (thorough) APPEND sessions, 0..2 / 0..3 lines each, values of every printable type incl. blanks, '#', quotes, "
                    "empty string, REAL with 6 decimals) followed by the WHILE NOT EOF / READFILE loop: lines and count computed by the harness; pre-existing files with and "
                    "without a final line break, blank lines, CR bytes, long lines, random contents; non-trivial = distinct program whose read loop finished")

    # ------------------------------------------------------------------ C16
    def c16_cases(tier, seed):
        r = rng_for(seed, "C16")
        names = ["a.txt", "b.txt"]
        alpha = []
        for f in names:
            alpha += [("open", f, m) for m in ("READ", "WRITE", "APPEND", "RANDOM")] + [("readfile", f), ("writefile", f), ("eof", f), ("seek", f), ("seek", f, 2), ("seek", f, 0), ("seek", f, 7), ("get", f), ("put", f), ("put", f, "r2"), ("close", f)]
        def stmt(op):
            f = op[1]
            if op[0] == "open": return "OPENFILE \"%s\" FOR %s" % (f, op[2])
            if op[0] == "readfile": return "READFILE \"%s\", line" % f
            if op[0] == "writefile": return "WRITEFILE \"%s\", \"w\"" % f
            if op[0] == "eof": return "EOF(\"%s\")" % f
            if op[0] == "seek": return "SEEK \"%s\", %d" % (f, op[2] if len(op) > 2 else 1)
            if op[0] == "get": return "GETRECORD \"%s\", line" % f
            if op[0] == "put": return "PUTRECORD \"%s\", %s" % (f, "rec2" if len(op) > 2 else "rec")
            if op[0] == "close": return "CLOSEFILE \"%s\"" % f
        def simulate(ops, disk):
            """explicit model: handle states and contents; returns list of 'ok'/'err' and final disk"""
            h = {}
            res = []
            for op in ops:
                f = op[1]
                if op[0] == "open":
                    m = op[2]
                    if f in h or (m in ("READ", "APPEND") and f not in disk): res.append("err"); continue
                    if m == "WRITE": disk[f] = b""
                    if m == "RANDOM" and f not in disk: disk[f] = b""
                    h[f] = dict(mode=m, pos=0, recs=None, cur=0, mod=False)
                    if m == "RANDOM": h[f]["recs"] = load_records(disk[f])
                    res.append("ok")
                elif op[0] == "close":
                    if f not in h: res.append("err"); continue
                    if h[f]["mode"] == "RANDOM" and h[f]["mod"]: disk[f] = b"".join(x + b"\n" for x in h[f]["recs"])
                    del h[f]; res.append("ok")
                elif op[0] in ("readfile", "eof"):
                    if f not in h or h[f]["mode"] != "READ": res.append("err"); continue
                    if op[0] == "readfile":
                        rest = disk[f][h[f]["pos"]:]
                        k = rest.find(b"\n")
                        h[f]["pos"] += (k + 1) if k >= 0 else len(rest)
                    res.append("ok")
                elif op[0] == "writefile":
                    if f not in h or h[f]["mode"] not in ("WRITE", "APPEND"): res.append("err"); continue
                    disk[f] += b"w\n"; res.append("ok")
                elif op[0] == "seek":
                    if f not in h or h[f]["mode"] != "RANDOM": res.append("err"); continue
                    k = op[2] if len(op) > 2 else 1
                    # a rejected SEEK leaves the handle where it was
                    if not (1 <= k <= len(h[f]["recs"]) + 1): res.append("err"); continue
                    h[f]["cur"] = k - 1; res.append("ok")
                elif op[0] == "put":
                    if f not in h or h[f]["mode"] != "RANDOM": res.append("err"); continue
                    t = b"STRING 4 rec2" if len(op) > 2 else b"STRING 3 rec"
                    if h[f]["cur"] < len(h[f]["recs"]): h[f]["recs"][h[f]["cur"]] = t
                    else: h[f]["recs"].append(t)
                    h[f]["mod"] = True; res.append("ok")
                elif op[0] == "get":
                    if f not in h or h[f]["mode"] != "RANDOM" or h[f]["cur"] >= len(h[f]["recs"]): res.append("err"); continue
                    res.append("ok" if h[f]["recs"][h[f]["cur"]].startswith(b"STRING ") else "err")
            for f, s in h.items():
                if s["mode"] == "RANDOM" and s["mod"]: disk[f] = b"".join(x + b"\n" for x in s["recs"])
            return res, disk
        def load_records(b):
            if not b: return []
            ls = b.split(b"\n")
            out = []
            for l in ls:
                if l.startswith(b"#") and out: out[-1] += b"\n" + l
                else: out.append(l)
            while out and out[-1] == b"": out.pop()
            return out
        depth = 5 if tier == "thorough" else 3
        hist = []
        if tier == "thorough":
            for i in range(60000):
                hist.append([r.choice(alpha) for _ in range(r.randint(2, 5))])
            hist += [list(h) for h in itertools.product(alpha, repeat=2)]
        else:
            hist = [list(h) for h in itertools.product(alpha, repeat=2)] + [[r.choice(alpha) for _ in range(r.randint(3, 5))] for _ in range(700)]
        for i in range(sizes(tier, 150, 3000)):
            hist.append([r.choice(alpha) for _ in range(r.randint(6, 40))])
        cases = []
        for i, h in enumerate(hist):
            pre = {"a.txt": b"one\ntwo\n"} if i % 2 == 0 else {}
            ending = r.choice(["eof", "error", "end"])
            ents = ["DECLARE line, rec, rec2 : STRING", "rec <- \"rec\"", "rec2 <- \"rec2\""] + [stmt(op) for op in h]
            res, disk = simulate(h, dict(pre))
            # REPL session: each op is an entry; the session then ends (end of input): everything must be on disk
            cases.append(repl_case("C16-h%d" % i, ents, files={k: ("f", v) for k, v in pre.items()}, meta=dict(units=["h%d" % i], expect=res, disk={k: v.decode("latin1") for k, v in disk.items()}, noshrink=True)))
            if i % 4 == 0:
                # the same in file mode, ended by a runtime error or by the end of the program: legal prefix only
                legal = [op for op, rr_ in zip(h, res) if rr_ == "ok"]
                L = ["DECLARE line, rec, rec2 : STRING", "rec <- \"rec\"", "rec2 <- \"rec2\""] + [stmt(op) if op[0] != "eof" else "OUTPUT " + stmt(op) for op in legal]
                if ending == "error": L.append("OUTPUT 1 DIV 0")
                res2, disk2 = simulate(legal, dict(pre))
                cases.append(Case(id="C16-f%d" % i, prog=("\n".join(L) + "\n").encode(), files={k: ("f", v) for k, v in pre.items()}, meta=dict(units=["f%d" % i], disk={k: v.decode("latin1") for k, v in disk2.items()})))
        for ch in chunks(cases, 400):
            yield ("histories", ch)
        # fault sequences
        faults = [
            ("missing-dir-write", "OPENFILE \"nodir/x.txt\" FOR WRITE\nOUTPUT \"opened\"\nWRITEFILE \"nodir/x.txt\", \"data\"\nCLOSEFILE \"nodir/x.txt\"", {}, "open-error"),
            ("missing-dir-random", "OPENFILE \"nodir/x.dat\" FOR RANDOM\nOUTPUT \"opened\"", {}, "open-error"),
            ("missing-dir-append", "OPENFILE \"nodir/x.txt\" FOR APPEND\nOUTPUT \"opened\"", {}, "open-error"),
            ("dir-read", "OPENFILE \"d\" FOR READ\nOUTPUT \"opened\"\nREADFILE \"d\", x\nOUTPUT x", {"d": ("d",)}, "open-error"),
            ("dir-write", "OPENFILE \"d\" FOR WRITE\nOUTPUT \"opened\"", {"d": ("d",)}, "open-error"),
            ("dir-append", "OPENFILE \"d\" FOR APPEND\nOUTPUT \"opened\"", {"d": ("d",)}, "open-error"),
            ("dir-random", "OPENFILE \"d\" FOR RANDOM\nOUTPUT \"opened\"", {"d": ("d",)}, "open-error"),
            ("subdir-ok", "OPENFILE \"sub/x.txt\" FOR WRITE\nWRITEFILE \"sub/x.txt\", \"data\"\nCLOSEFILE \"sub/x.txt\"\nOUTPUT \"done\"", {"sub": ("d",)}, None),
            ("devfull", "OPENFILE \"/dev/full\" FOR WRITE\nOUTPUT \"opened\"\nWRITEFILE \"/dev/full\", \"data\"\nOUTPUT \"written\"", {"/dev/full": ("x",)}, "write-error"),
            ("devfull-append", "OPENFILE \"/dev/full\" FOR APPEND\nWRITEFILE \"/dev/full\", \"data\"\nOUTPUT \"written\"", {"/dev/full": ("x",)}, "write-error"),
            ("reopen-deleted", "OPENFILE \"gone.txt\" FOR READ\nOUTPUT \"opened\"", {}, "open-error"),
            ("long-name", "OPENFILE \"%s\" FOR READ\nOUTPUT \"opened\"" % ("n" * 300), {}, "open-error"),
            ("long-name-w", "OPENFILE \"%s\" FOR WRITE\nOUTPUT \"opened\"" % ("n" * 300), {}, "open-error"),
            ("unclosed-write", "OPENFILE \"u.txt\" FOR WRITE\nWRITEFILE \"u.txt\", \"kept\"\nOUTPUT 1 DIV 0", {}, "disk:u.txt=kept\n"),
            ("unclosed-random", "DECLARE s : STRING\ns <- \"kept\"\nOPENFILE \"u.dat\" FOR RANDOM\nPUTRECORD \"u.dat\", s\nOUTPUT 1 DIV 0", {}, "disk:u.dat=STRING 4 kept\n"),
            ("unclosed-end", "OPENFILE \"u.txt\" FOR WRITE\nWRITEFILE \"u.txt\", 5\nWRITEFILE \"u.txt\", TRUE", {}, "disk:u.txt=5\nTRUE\n"),
            ("filename-type", "OPENFILE 5 FOR READ", {}, "error"), ("close-type", "CLOSEFILE TRUE", {}, "error"),
        ]
        yield ("fault-sequences", [Case(id="C16-fault-" + n, prog=(p + "\n").encode(), files=dict(fl), meta=dict(units=[n], fault=exp)) for n, p, fl, exp in faults])
        # everything written reaches the file system, whatever its type: values that need every digit / every byte, written with WRITEFILE and PUTRECORD, the handle closed,
        # left open at a normal end, or left open at a runtime error; the final file bytes are compared with the model's, and a read-back in the same program must give the kept value
        vals = [("REAL", "0.1 + 0.2"), ("REAL", "1.0 / 3.0"), ("REAL", "1e22 / 3.0"), ("REAL", "123456789.123456789"), ("REAL", "100.0"), ("INTEGER", "9223372036854775807"), ("INTEGER", "- 9223372036854775807 - 1"),
                ("CHAR", "CHR(10)"), ("CHAR", "'#'"), ("STRING", '"two" & CHR(10) & "#lines"'), ("STRING", '""'), ("DATE", "29/2/2024"), ("BOOLEAN", "TRUE")]
        wt = []
        for k, (ty, e) in enumerate(vals):
            for ending in ("close", "end", "error"):
                tail = {"close": ["CLOSEFILE \"w.dat\"", "CLOSEFILE \"w.txt\"", "OPENFILE \"w.dat\" FOR RANDOM", "GETRECORD \"w.dat\", y", "OUTPUT \"same \", x = y", "CLOSEFILE \"w.dat\""], "end": ["OUTPUT \"end\""], "error": ["OUTPUT 1 DIV 0"]}[ending]
                L = ["DECLARE x, y : %s" % ty, "x <- %s" % e, "OPENFILE \"w.dat\" FOR RANDOM", "PUTRECORD \"w.dat\", x", "SEEK \"w.dat\", 2", "PUTRECORD \"w.dat\", x", "OPENFILE \"w.txt\" FOR WRITE", "WRITEFILE \"w.txt\", x", "WRITEFILE \"w.txt\", \"|\""] + tail
                wt.append(Case(id="C16-typed-%d-%s" % (k, ending), prog=("\n".join(L) + "\n").encode(), meta=dict(units=["typed/%d/%s" % (k, ending)], typed=ending)))
        yield ("typed-write-through", wt)

    def c16_oracle(c, r, m):
        import core
        msgs = []
        if c.meta.get("typed") == "close":
            if b"same TRUE" not in r.out and r.exit == 0: msgs.append("a value written with PUTRECORD and the handle closed did not read back as written: %r" % r.out[-60:])
            return msgs
        f = c.meta.get("fault", "absent")
        if f != "absent":
            if f in ("open-error", "write-error", "error"):
                if not (r.exit == 1 and r.diags and r.diags[0].kind == "runtime"):
                    msgs.append("the failing file operation was not reported (exit %d, out %r)" % (r.exit, r.out[-60:]))
                if f == "open-error" and b"opened" in r.out: msgs.append("OPENFILE on a path that cannot be opened went through")
                if f == "write-error" and b"written" in r.out: msgs.append("a write the operating system rejects was silently ignored")
            elif f and f.startswith("disk:"):
                name, content = f[5:].split("=", 1)
                got = r.files.get(name)
                if got is None or got[1] != content.encode():
                    msgs.append("data written before the end of the run did not reach the file system: %s holds %r" % (name, got))
            return msgs
        disk = c.meta.get("disk")
        exp = c.meta.get("expect")
        if exp is not None:
            errs = r.raw_err.split(core.MARK)
            for i, e in enumerate(exp):
                er = errs[i + 3] if i + 3 < len(errs) else b""
                had = b"Error" in er
                if e == "err" and not had: msgs.append("step %d (%s) is illegal in this state but was accepted" % (i + 1, c.stdin.split(b"\n")[i + 3].decode())); break
                if e == "ok" and had: msgs.append("step %d (%s) is legal but was rejected: %r" % (i + 1, c.stdin.split(b"\n")[i + 3].decode(), er[:100])); break
        if disk is not None and not msgs:
            got = {k: v[1].decode("latin1") for k, v in r.files.items() if v[0] == "f"}
            if got != disk:
                msgs.append("file contents after the run: expected %r, found %r" % (disk, got))
        return msgs

    C16 = dict(cases=c16_cases, builds_quick=["normal", "san"], oracle=c16_oracle, nontrivial=lambda c, r, m: True,
               rule="histories over two file names and {OPEN READ/WRITE/APPEND/RANDOM, READFILE, WRITEFILE, EOF, SEEK, GETRECORD, PUTRECORD, CLOSEFILE}: all of length 2, random of length "
                    "3..5 and 6..40, as REPL sessions ended by end of input, each step judged accept/reject by an explicit handle-state model in the harness and the directory "
                    "contents after the run compared with that model; the legal prefix also in file mode ended by a runtime error or by the end of the program; fault sequences: "
                    "missing directory, directory as path, /dev/full, missing file, over-long name, unclosed handles at a runtime error",
               trusted=["what the OS does on /dev/full and when libstdc++ flushes are modelled; the 'write the OS rejects is reported' clause is decided by this check only"])

    return {"C13": C13, "C14": C14, "C15": C15, "C16": C16}
