#!/usr/bin/env python3
"""C05 typed stores, C06 arrays, C07 records, C08 constants, C09 pointers."""
import itertools, random
from core import Case

def build(P):
    repl_case, sizes, chunks, rng_for = P["repl_case"], P["sizes"], P["chunks"], P["rng_for"]
    G, render, strlit, gen_program = P["G"], P["render"], P["strlit"], P["gen_program"]

    TYPEDEFS = ["TYPE Col = (Red, Green, Blue)", "TYPE Shape = (Dot, Line)", "TYPE PInt = ^INTEGER", "TYPE PStr = ^STRING",
                "TYPE RecA", "DECLARE f : INTEGER", "ENDTYPE", "TYPE RecB", "DECLARE g : STRING", "ENDTYPE"]
    # type -> (declared name, a value expression of that type, a second distinct value, needs setup lines)
    TY = {
        "INTEGER": ("7", "8"), "REAL": ("2.5", "3.75"), "BOOLEAN": ("TRUE", "FALSE"), "CHAR": ("'q'", "'r'"), "STRING": ('"hey"', '"yo"'),
        "STRING1": ('"z"', '"y"'), "STRING0": ('""', '""'), "DATE": ("14/3/2020", "15/3/2020"), "Col": ("Green", "Blue"), "Shape": ("Line", "Dot"),
        "PInt": ("srcPInt", "srcPInt2"), "PStr": ("srcPStr", "srcPStr2"), "RecA": ("srcRecA", "srcRecA2"), "RecB": ("srcRecB", "srcRecB2"),
    }
    DECL = {"STRING1": "STRING", "STRING0": "STRING"}
    SRC_SETUP = ["DECLARE tI : INTEGER", "DECLARE tI2 : INTEGER", "DECLARE tS : STRING", "DECLARE tS2 : STRING", "tI <- 1", "tI2 <- 2", "tS <- \"s1\"", "tS2 <- \"s2\"",
                 "DECLARE srcPInt : PInt", "DECLARE srcPInt2 : PInt", "srcPInt <- ^tI", "srcPInt2 <- ^tI2", "DECLARE srcPStr : PStr", "DECLARE srcPStr2 : PStr", "srcPStr <- ^tS", "srcPStr2 <- ^tS2",
                 "DECLARE srcRecA : RecA", "DECLARE srcRecA2 : RecA", "srcRecA.f <- 41", "srcRecA2.f <- 42", "DECLARE srcRecB : RecB", "DECLARE srcRecB2 : RecB", "srcRecB.g <- \"b1\"", "srcRecB2.g <- \"b2\""]

    def show(ref, ty):
        """lines printing the value at ref of type ty"""
        t = DECL.get(ty, ty)
        if t in ("PInt", "PStr"): return ["OUTPUT %s^" % ref]
        if t == "RecA": return ["OUTPUT %s.f" % ref]
        if t == "RecB": return ["OUTPUT %s.g" % ref]
        return ["OUTPUT %s" % ref]

    ARRAY_ASSIGN = []

    def c05_cases(tier, seed):
        # whole-array assignment is a store channel too: the element type must be identical (C06's matrix, built on demand)
        if not ARRAY_ASSIGN:
            for _ in c06_cases("quick", seed):
                if ARRAY_ASSIGN: break
        yield ("array-assign-matrix", [Case(id="C05-aa-%d" % i, prog=(sp + "\n").encode(), meta=dict(units=["aa/%d" % i])) for i, sp in enumerate(ARRAY_ASSIGN)])
        progs = []
        targets = [t for t in TY if t not in ("STRING1", "STRING0")]
        for tt in targets:
            for st in TY:
                v1, v2 = TY[tt]
                s1 = TY[st][1]
                td = DECL.get(tt, tt)
                for chan in ["var", "elem", "field", "deref", "byval", "byref", "return", "newvar", "byref-fn", "byref-expr", "byref-expr-fn", "byref-paren", "byref-paren-fn"]:
                    lines = list(TYPEDEFS) + list(SRC_SETUP)
                    if chan == "var":
                        lines += ["DECLARE t : %s" % td, "t <- %s" % v1] + show("t", tt) + ["t <- %s" % s1] + show("t", tt)
                    elif chan == "elem":
                        lines += ["DECLARE a : ARRAY[0:2] OF %s" % td, "a[1] <- %s" % v1] + show("a[1]", tt) + ["a[1] <- %s" % s1] + show("a[1]", tt) + show("a[0]", tt)
                    elif chan == "field":
                        lines += ["TYPE Holder", "DECLARE m : %s" % td, "DECLARE n : INTEGER", "ENDTYPE", "DECLARE h : Holder", "h.m <- %s" % v1] + show("h.m", tt) + ["h.m <- %s" % s1] + show("h.m", tt)
                    elif chan == "deref":
                        if td in ("PInt", "PStr"): continue
                        lines += ["TYPE PT = ^%s" % td, "DECLARE t : %s" % td, "DECLARE p : PT", "t <- %s" % v1, "p <- ^t"] + show("t", tt) + ["p^ <- %s" % s1] + show("t", tt)
                    elif chan == "byval":
                        lines += ["PROCEDURE P(x : %s)" % td] + show("x", tt) + ["ENDPROCEDURE", "OUTPUT \"before\"", "CALL P(%s)" % s1, "OUTPUT \"after\""]
                    elif chan == "byref":
                        sd = DECL.get(st, st)
                        lines += ["PROCEDURE P(BYREF x : %s)" % td, "x <- %s" % v2, "ENDPROCEDURE", "DECLARE s : %s" % sd, "s <- %s" % TY[st][0]] + show("s", st) + ["CALL P(s)"] + show("s", st)
                    elif chan == "byref-fn":
                        sd = DECL.get(st, st)
                        lines += ["FUNCTION F(BYREF x : %s) RETURNS INTEGER" % td, "x <- %s" % v2, "RETURN 1", "ENDFUNCTION", "DECLARE s : %s" % sd, "s <- %s" % TY[st][0]] + show("s", st) + ["OUTPUT F(s)"] + show("s", st)
                    elif chan in ("byref-expr", "byref-expr-fn", "byref-paren", "byref-paren-fn"):
                        # a BYREF parameter given something that is not a variable (a literal / a parenthesised or computed value of the parameter's type)
                        if st != tt: continue
                        head, call = (["PROCEDURE P(BYREF x : %s)" % td], "CALL P(%s)") if not chan.endswith("-fn") else (["FUNCTION P(BYREF x : %s) RETURNS INTEGER" % td], "OUTPUT P(%s)")
                        tail = ["ENDPROCEDURE"] if not chan.endswith("-fn") else ["RETURN 1", "ENDFUNCTION"]
                        lines += head + ["x <- %s" % v2] + tail + ["DECLARE s : %s" % td, "s <- %s" % v1, "OUTPUT \"before\"", call % "s"] + show("s", tt) + [call % (v1 if "expr" in chan else "(s)"), "OUTPUT \"after\""] + show("s", tt)
                    elif chan == "return":
                        lines += ["FUNCTION F() RETURNS %s" % td, "RETURN %s" % s1, "ENDFUNCTION", "OUTPUT \"before\"", "DECLARE t : %s" % td, "t <- F()"] + show("t", tt)
                    elif chan == "newvar":
                        if tt != "INTEGER": continue
                        lines += ["fresh <- %s" % s1] + show("fresh", st) + ["fresh <- %s" % TY[tt][0]] + show("fresh", st)
                    progs.append(Case(id="C05-%s-%s-%s" % (chan, tt, st), prog=("\n".join(lines) + "\n").encode(), meta=dict(units=["%s/%s/%s" % (chan, tt, st)])))
        for ch in chunks(progs, 400):
            yield ("matrix", ch)
        # INPUT conversions
        inputs = [b"12", b"-7", b" 5", b"5 ", b"abc", b"", b"3.75", b"1e3", b"TRUE", b"true", b"FALSE", b"x", b"xy", b"99999999999999999999", b"0x1F", b"12abc", b"\t9", b"+4", b"1.", b".5", b"inf", b"nan"]
        progs = []
        for tt in ["INTEGER", "REAL", "BOOLEAN", "CHAR", "STRING", "DATE", "Col", "PInt", "RecA"]:
            for inp in inputs:
                lines = list(TYPEDEFS) + ["DECLARE t : %s" % tt]
                if tt in ("INTEGER", "REAL", "BOOLEAN", "CHAR", "STRING"):
                    lines += ["t <- %s" % TY[tt][0]]
                lines += ["OUTPUT \"before\"", "INPUT t"]
                if tt in ("INTEGER", "REAL", "BOOLEAN", "STRING"): lines += ["OUTPUT \"[\", t, \"]\""]
                elif tt == "CHAR": lines += ["OUTPUT ASC(t)"]
                lines += ["INPUT rest", "OUTPUT \"rest=\", rest"]
                progs.append(Case(id="C05-input-%s-%s" % (tt, inp.hex()), prog=("\n".join(lines) + "\n").encode(), stdin=inp + b"\nnextline\n", meta=dict(units=["input/%s/%r" % (tt, inp)])))
        yield ("input", progs)
        # procedure-level type definitions: which names they may take, what a variable / parameter of such a type accepts
        kinds = {"enum": ("TYPE %s = (A%d, B%d)", "A%d"), "ptr": ("TYPE %s = ^%s", None), "rec": ("TYPE %s\nDECLARE v : %s\nENDTYPE", None)}
        def tdef(kind, name, k, base="INTEGER"):
            if kind == "enum": return "TYPE %s = (A%d, B%d)" % (name, k, k)
            if kind == "ptr": return "TYPE %s = ^%s" % (name, base)
            return "TYPE %s\nDECLARE v : %s\nENDTYPE" % (name, base)
        scoped = []
        for gk in ("enum", "ptr", "rec"):
            for lk in ("enum", "ptr", "rec"):
                for where in ("PROCEDURE P()", "FUNCTION P() RETURNS INTEGER"):
                    end = "ENDPROCEDURE" if where.startswith("PROC") else "RETURN 1\nENDFUNCTION"
                    call = "CALL P()" if where.startswith("PROC") else "OUTPUT P()"
                    # the local definition re-uses the name of a global type / of a type of the calling procedure / a fresh name; called twice
                    scoped.append("\n".join([tdef(gk, "T", 1), where, tdef(lk, "T", 2, "STRING"), "OUTPUT \"in\"", end, call, "OUTPUT \"after\""]))
                    scoped.append("\n".join([tdef(gk, "T", 1), where, tdef(lk, "U", 2, "STRING"), "DECLARE u : U", "OUTPUT \"in\"", end, call, call, "OUTPUT \"after\""]))
                    scoped.append("\n".join([where, tdef(lk, "T", 2, "STRING"), "OUTPUT \"in\"", end, "PROCEDURE Q()", tdef(gk, "T", 1), call, "OUTPUT \"q\"", "ENDPROCEDURE", "CALL Q()", tdef(gk, "T", 3), "OUTPUT \"after\""]))
        scoped += [
            # an enum name of a procedure-level type against a global enum name / variable / type of that name
            "TYPE E = (Red, Green)\nPROCEDURE P()\nTYPE F = (Green, Blue)\nOUTPUT \"in\"\nENDPROCEDURE\nCALL P()\nOUTPUT \"after\"",
            "TYPE E = (Red, Green)\nPROCEDURE P()\nTYPE Red = ^INTEGER\nOUTPUT \"in\"\nENDPROCEDURE\nCALL P()\nOUTPUT \"after\"",
            "DECLARE T : INTEGER\nPROCEDURE P()\nTYPE T = ^INTEGER\nDECLARE p : T\nOUTPUT \"in\"\nENDPROCEDURE\nCALL P()\nOUTPUT \"after\"",
            # BYREF parameter whose declared type and the argument's type differ only through a procedure-level definition of the same name
            "TYPE R\nDECLARE q : IP\nENDTYPE\nDECLARE s : STRING\ns <- \"hello\"\nFUNCTION H(BYREF rr : R) RETURNS INTEGER\nTYPE IP = ^STRING\nrr.q <- ^s\nRETURN 0\nENDFUNCTION\nPROCEDURE P(BYREF a : INTEGER, BYVAL b : INTEGER)\na <- 5\nENDPROCEDURE\nPROCEDURE F()\nTYPE IP = ^INTEGER\nDECLARE x : INTEGER\nDECLARE r : R\nr.q <- ^x\nCALL P(r.q^, H(r))\nENDPROCEDURE\nCALL F()\nOUTPUT s\nOUTPUT LENGTH(s)",
            "TYPE IP = ^INTEGER\nDECLARE x : INTEGER\nDECLARE s : STRING\nDECLARE p : IP\np <- ^x\ns <- \"hello\"\nFUNCTION G() RETURNS INTEGER\nTYPE IP = ^STRING\np <- ^s\nRETURN 0\nENDFUNCTION\nPROCEDURE P(BYREF a : INTEGER, BYVAL b : INTEGER)\na <- 5\nENDPROCEDURE\nCALL P(p^, G())\nOUTPUT s\nOUTPUT LENGTH(s)",
            # a global record type whose member type exists only as procedure-local types (three former crashes), forward reference to a later global type
            'TYPE T\nDECLARE f : U\nENDTYPE\nPROCEDURE P3(BYREF y : INTEGER, BYREF x : T)\nTYPE U\nDECLARE b : INTEGER\nENDTYPE\nDECLARE l2 : T\nx <- l2\ny <- 1\nENDPROCEDURE\nPROCEDURE P1\nTYPE U\nDECLARE a : INTEGER\nENDTYPE\nDECLARE l : T\nCALL P3(l.f.a, l)\nENDPROCEDURE\nCALL P1',
            'TYPE T\nDECLARE e : E\nENDTYPE\nPROCEDURE P2(BYREF x : T)\nTYPE E = (c, d, third)\nx.e <- third\nENDPROCEDURE\nPROCEDURE P1\nTYPE E = (a, b)\nDECLARE l : T\nCALL P2(l)\nOUTPUT l.e\nENDPROCEDURE\nCALL P1',
            'TYPE T\nDECLARE q : PL\nENDTYPE\nPROCEDURE P2(BYREF x : T)\nDECLARE i : INTEGER\nx.q <- ^i\nENDPROCEDURE\nPROCEDURE P1\nTYPE PL = ^INTEGER\nDECLARE l : T\nCALL P2(l)\nENDPROCEDURE\nCALL P1',
            'TYPE Node\nDECLARE val : INTEGER\nDECLARE next : NodePtr\nENDTYPE\nTYPE NodePtr = ^Node\nDECLARE a, b : Node\nDECLARE p : NodePtr\na.val <- 1\nb.val <- 2\na.next <- ^b\np <- a.next\nOUTPUT p^.val\nPROCEDURE Q()\nTYPE L\nDECLARE z : LE\nENDTYPE\nTYPE LE = (one, two)\nDECLARE v : L\nv.z <- two\nOUTPUT v.z\nDECLARE n : Node\nn.val <- 7\nn.next <- ^a\nOUTPUT n.next^.val\nENDPROCEDURE\nCALL Q()',
            # a BYREF argument whose index expression fails on its first evaluation and succeeds on the second (former crash)
            'TYPE G = (A, B)\nDECLARE cnt : INTEGER\ncnt <- 0\nFUNCTION F(x : INTEGER) RETURNS INTEGER\n  cnt <- cnt + 1\n  IF cnt = 1 THEN\n    OUTPUT undefinedVar\n  ENDIF\n  RETURN 1\nENDFUNCTION\nPROCEDURE Q(BYREF x : G)\n  OUTPUT "in Q"\n  OUTPUT x.e\nENDPROCEDURE\nPROCEDURE P()\n  TYPE LE = (L1, L2, L3)\n  TYPE LT\n    DECLARE e : LE\n  ENDTYPE\n  DECLARE A : ARRAY[1:3] OF LT\n  A[1].e <- L3\n  CALL Q(A[F(1)])\nENDPROCEDURE\nCALL P()\nOUTPUT "done"',
            # a later argument with a side effect on an earlier BYREF argument's target
            "DECLARE x : INTEGER\nx <- 1\nFUNCTION Bump() RETURNS INTEGER\nx <- x + 10\nRETURN x\nENDFUNCTION\nPROCEDURE P(BYREF a : INTEGER, b : INTEGER)\nOUTPUT a, \" \", b\na <- a + b\nENDPROCEDURE\nCALL P(x, Bump())\nOUTPUT x",
            "TYPE IP = ^INTEGER\nDECLARE x, y : INTEGER\nDECLARE p : IP\nx <- 1\ny <- 2\np <- ^x\nFUNCTION Swing() RETURNS INTEGER\np <- ^y\nRETURN 7\nENDFUNCTION\nPROCEDURE P(BYREF a : INTEGER, b : INTEGER)\na <- a * 100 + b\nENDPROCEDURE\nCALL P(p^, Swing())\nOUTPUT x, \" \", y",
        ]
        yield ("scoped-types", [Case(id="C05-scoped-%d" % i, prog=(sp + "\n").encode(), meta=dict(units=["scoped/%d" % i])) for i, sp in enumerate(scoped)])
        # parameter lists with shared types ("a, b : INTEGER, ratio : REAL, label : STRING"): every position given a value of every other position's type —
        # each parameter keeps ITS declared type whatever the grouping (a shifted type list accepts the wrong ones and refuses the right ones)
        glists = []
        heads = [("a, b : INTEGER, ratio : REAL, label : STRING", ["INTEGER", "INTEGER", "REAL", "STRING"]), ("a : INTEGER, b, c : STRING, d : BOOLEAN", ["INTEGER", "STRING", "STRING", "BOOLEAN"]),
                 ("a, b, c : INTEGER, d : STRING, e : BOOLEAN", ["INTEGER", "INTEGER", "INTEGER", "STRING", "BOOLEAN"]), ("BYREF a, b : INTEGER, BYVAL c : STRING, d : REAL", ["INTEGER", "INTEGER", "STRING", "REAL"])]
        lit = {"INTEGER": "3", "REAL": "0.5", "STRING": '"lbl"', "BOOLEAN": "TRUE"}
        for kind in ("PROCEDURE", "FUNCTION"):
            for head, tys_ in heads:
                names = ["a", "b", "c", "d", "e"][:len(tys_)] if "ratio" not in head else ["a", "b", "ratio", "label"]
                body = ["OUTPUT \"in \", " + ", \" \", ".join(names)] + (["RETURN 1", "ENDFUNCTION"] if kind == "FUNCTION" else ["ENDPROCEDURE"])
                hd = "%s Show(%s)%s" % (kind, head, " RETURNS INTEGER" if kind == "FUNCTION" else "")
                decls = ["DECLARE v%d : %s" % (i, t) for i, t in enumerate(tys_)] + ["v%d <- %s" % (i, lit[t]) for i, t in enumerate(tys_)]
                good = ["v%d" % i for i in range(len(tys_))]
                callf = "dummy <- Show(%s)" if kind == "FUNCTION" else "CALL Show(%s)"
                glists.append("\n".join([hd] + body + decls + [callf % ", ".join(good), "OUTPUT \"after\""]))
                for pos in range(len(tys_)):
                    for other in sorted(set(lit) - {tys_[pos]}):
                        a = list(good); a[pos] = lit[other]
                        if "BYREF" in head and pos < 2: continue
                        glists.append("\n".join([hd] + body + decls + [callf % ", ".join(a), "OUTPUT \"after\""]))
        yield ("pointer-site-matrix", [Case(id="C05-ps-%d" % i, prog=(sp + "\n").encode(), meta=dict(units=["ps/%d" % i])) for i, sp in enumerate(ptr_site_matrix())])
        yield ("grouped-parameter-types", [Case(id="C05-glist-%d" % i, prog=(sp + "\n").encode(), meta=dict(units=["glist/%d" % i])) for i, sp in enumerate(glists)])
        n = sizes(tier, 600, 20000)
        cs = []
        for i in range(n):
            g, lines = gen_program(seed, "C05", i, max_depth=2, err_rate=0.15, fault_prob=0.9)
            cs.append(Case(id="C05-g%d" % i, prog=render(lines), stdin=b"12\nabc\n", meta=dict(features=sorted(g.features))))
        for ch in chunks(cs, 400):
            yield ("generator", ch)

    C05 = dict(cases=c05_cases, builds_quick=["normal", "san"], model_is_oracle=("out", "exit", "files", "termination"), nontrivial=lambda c, r, m: True,
               rule="every ordered (target type, source type) pair over INTEGER, REAL, BOOLEAN, CHAR, STRING (length 1 and longer), DATE, two enums, two pointer types, "
                    "two record types through each channel (variable, element, field, dereferenced pointer, BYVAL, BYREF, RETURN, first assignment), target printed before and "
                    "after; INPUT of 22 lines into every type; random typed programs with an injected ill-typed store; unit = one (channel, target, source) program")

    # ------------------------------------------------------------------ C06
    def c06_cases(tier, seed):
        r = rng_for(seed, "C06")
        shapes1 = [(lo, hi) for lo in range(-3, 5) for hi in range(lo, 5)]
        def lit(v): return str(v) if v >= 0 else "- %d" % -v
        def prog_for(dims):
            decl = "DECLARE a : ARRAY[" + ", ".join("%s:%s" % (lit(lo), lit(hi)) for lo, hi in dims) + "] OF INTEGER"
            lines = [decl]
            cells = list(itertools.product(*[range(lo, hi + 1) for lo, hi in dims]))
            exp = []
            for k, cell in enumerate(cells):
                lines.append("a[%s] <- %d" % (", ".join(lit(v) for v in cell), 1000 + k))
            for k, cell in enumerate(cells):
                lines.append("OUTPUT a[%s]" % ", ".join(lit(v) for v in cell)); exp.append("%d" % (1000 + k))
            return lines, cells, exp
        progs = []
        all_dims = [[d] for d in shapes1]
        d2 = [[a, b] for a in shapes1 for b in shapes1]
        d3 = [[a, b, c] for a in shapes1 for b in shapes1 for c in shapes1]
        if tier == "quick":
            d2 = r.sample(d2, 150); d3 = r.sample(d3, 120)
        else:
            d3 = r.sample(d3, 1500)
        for dims in all_dims + d2 + d3:
            lines, cells, exp = prog_for(dims)
            progs.append(Case(id="C06-rw-" + "_".join("%d.%d" % d for d in dims), prog=("\n".join(lines) + "\n").encode(),
                              meta=dict(expect="\n".join(exp) + "\n", units=["rw" + repr(dims)])))
            # probes one step outside, each as its own program (an error ends the run)
            box = list(itertools.product(*[range(lo - 1, hi + 2) for lo, hi in dims]))
            outside = [c for c in box if c not in set(cells)]
            nprobe = len(outside) if (len(dims) == 1 or (tier == "thorough" and len(dims) == 2)) else min(12 if tier == "thorough" else 3, len(outside))
            for cell in (outside if nprobe == len(outside) else r.sample(outside, nprobe)):
                l2 = lines[:1 + len(cells)] + ["OUTPUT \"probe\"", "a[%s] <- 77" % ", ".join(lit(v) for v in cell), "OUTPUT \"not reached\""]
                progs.append(Case(id="C06-oob-%s-%s" % ("_".join("%d.%d" % d for d in dims), "_".join(map(str, cell))), prog=("\n".join(l2) + "\n").encode(),
                                  meta=dict(oob=True, units=["oob" + repr(dims) + repr(cell)])))
        for ch in chunks(progs, 500):
            yield ("exhaustive-shapes", ch)
        # whole-array assignment: every (element type, element type) pair incl. user types of the same kind, equal and different bounds, 1 and 2 dimensions;
        # the copy carries every cell (all cells distinct), source and destination stay independent
        ETY = {"INTEGER": ["1", "2", "3", "4", "5", "6"], "REAL": ["1.5", "2.5", "3.5", "4.5", "5.5", "6.5"], "STRING": ['"a"', '"b"', '"c"', '"d"', '"e"', '"f"'], "CHAR": ["'a'", "'b'", "'c'", "'d'", "'e'", "'f'"],
               "BOOLEAN": ["TRUE", "FALSE", "TRUE", "TRUE", "FALSE", "FALSE"], "DATE": ["1/1/2001", "2/1/2001", "3/1/2001", "4/1/2001", "5/1/2001", "6/1/2001"],
               "Colour": ["Red", "Green", "Blue", "Green", "Red", "Blue"], "Size": ["Large", "Small", "Medium", "Small", "Large", "Medium"], "RecA": None, "RecB": None, "PA": None, "PB": None}
        PRE = ["TYPE Colour = (Red, Green, Blue)", "TYPE Size = (Small, Medium, Large)", "TYPE RecA\nDECLARE f : INTEGER\nENDTYPE", "TYPE RecB\nDECLARE f : INTEGER\nENDTYPE", "TYPE PA = ^INTEGER", "TYPE PB = ^INTEGER", "DECLARE tgt1, tgt2 : INTEGER"]
        def setcell(ref, ty, k):
            if ty in ("RecA", "RecB"): return "%s.f <- %d" % (ref, 10 + k)
            if ty in ("PA", "PB"): return "%s <- ^tgt%d" % (ref, 1 + k % 2)
            return "%s <- %s" % (ref, ETY[ty][k % 6])
        def showcell(ref, ty):
            if ty in ("RecA", "RecB"): return ref + ".f"
            if ty in ("PA", "PB"): return ref + "^"
            return ref
        am = []
        for bounds, cells in [("1:3", ["1", "2", "3"]), ("1:2, 0:2", ["1, 0", "1, 1", "1, 2", "2, 0", "2, 1", "2, 2"]), ("0:1, 1:1, 1:3", ["0, 1, 1", "0, 1, 2", "0, 1, 3", "1, 1, 1", "1, 1, 2", "1, 1, 3"])]:
            for ta in ETY:
                for tb in ETY:
                    if ta != tb and bounds != "1:3" and not (ta in ("Colour", "RecA", "PA") and tb in ("Size", "RecB", "PB")): continue
                    L = list(PRE) + ["tgt1 <- 71", "tgt2 <- 72", "DECLARE a : ARRAY[%s] OF %s" % (bounds, ta), "DECLARE b : ARRAY[%s] OF %s" % (bounds, tb)]
                    L += [setcell("a[%s]" % c, ta, k) for k, c in enumerate(cells)] + ["OUTPUT \"before\"", "b <- a", "OUTPUT \"copied\""]
                    L += ["OUTPUT " + ", \" \", ".join(showcell("b[%s]" % c, tb) for c in cells)]
                    L += [setcell("a[%s]" % cells[-1], ta, 0), setcell("b[%s]" % cells[0], tb, 4), "OUTPUT " + ", \" \", ".join([showcell("a[%s]" % c, ta) for c in cells] + [showcell("b[%s]" % c, tb) for c in cells])]
                    am.append("\n".join(L))
        for ta in ETY:
            if ta in ("PA", "PB"): continue
            cells = ["1", "2", "3"]
            # the SOURCE is untouched since its declaration, the destination holds values: the copy must reset every cell to the default
            L = list(PRE) + ["DECLARE a : ARRAY[1:3] OF %s" % ta, "DECLARE b : ARRAY[1:3] OF %s" % ta] + [setcell("b[%s]" % c, ta, k + 1) for k, c in enumerate(cells)]
            L += ["OUTPUT \"before \", " + ", \" \", ".join(showcell("b[%s]" % c, ta) for c in cells), "b <- a", "OUTPUT \"copied \", " + ", \" \", ".join(showcell("b[%s]" % c, ta) for c in cells)]
            am.append("\n".join(L))
            # only ONE cell of the source was ever written; a source that was only read
            L = list(PRE) + ["DECLARE a : ARRAY[1:3] OF %s" % ta, "DECLARE b : ARRAY[1:3] OF %s" % ta] + [setcell("b[%s]" % c, ta, k + 1) for k, c in enumerate(cells)] + [setcell("a[2]", ta, 4)]
            L += ["b <- a", "OUTPUT \"copied \", " + ", \" \", ".join(showcell("b[%s]" % c, ta) for c in cells)]
            am.append("\n".join(L))
            L = list(PRE) + ["DECLARE a : ARRAY[1:3] OF %s" % ta, "DECLARE b : ARRAY[1:3] OF %s" % ta] + [setcell("b[%s]" % c, ta, k + 1) for k, c in enumerate(cells)] + ["OUTPUT \"peek \", " + showcell("a[1]", ta)]
            L += ["b <- a", "OUTPUT \"copied \", " + ", \" \", ".join(showcell("b[%s]" % c, ta) for c in cells)]
            am.append("\n".join(L))
        for dst, src in [("1:3", "0:2"), ("1:3", "1:4"), ("1:2, 1:3", "1:3, 1:2"), ("1:6", "1:2, 1:3"), ("1:2, 1:3", "1:2, 1:4"), ("0:1, 1:3", "1:2, 1:3")]:
            am.append("\n".join(["DECLARE a : ARRAY[%s] OF INTEGER" % src, "DECLARE b : ARRAY[%s] OF INTEGER" % dst, "OUTPUT \"before\"", "b <- a", "OUTPUT \"not reached\""]))
        ARRAY_ASSIGN[:] = am
        yield ("array-assign-matrix", [Case(id="C06-aa-%d" % i, prog=(sp + "\n").encode(), meta=dict(units=["aa/%d" % i])) for i, sp in enumerate(am)])
        shapes = [
            "DECLARE a : ARRAY[1:3] OF INTEGER\nOUTPUT a[1.0]", "DECLARE a : ARRAY[1:3] OF INTEGER\nOUTPUT a[\"1\"]", "DECLARE a : ARRAY[1:3] OF INTEGER\nOUTPUT a[1, 1]",
            "DECLARE a : ARRAY[1:3, 1:2] OF INTEGER\nOUTPUT a[1]", "DECLARE a : ARRAY[1:3] OF INTEGER\nOUTPUT a", "DECLARE a : ARRAY[1:3] OF INTEGER\na <- 5", "x <- 5\nOUTPUT x[1]",
            "DECLARE a : ARRAY[3:1] OF INTEGER", "DECLARE a : ARRAY[1.5:3] OF INTEGER", "DECLARE a : ARRAY[1:3] OF Nope",
            "DECLARE a, b : ARRAY[1:3] OF INTEGER\na[1] <- 1\na[2] <- 2\na[3] <- 3\nb <- a\na[1] <- 10\nb[2] <- 20\nOUTPUT a[1], a[2], a[3], \" \", b[1], b[2], b[3]",
            "DECLARE a : ARRAY[1:3] OF INTEGER\nDECLARE b : ARRAY[1:3] OF REAL\nb <- a", "DECLARE a : ARRAY[1:3] OF INTEGER\nDECLARE b : ARRAY[0:2] OF INTEGER\nb <- a\nOUTPUT b[0]",
            "DECLARE a : ARRAY[1:3] OF INTEGER\nDECLARE b : ARRAY[1:4] OF INTEGER\nb <- a", "DECLARE a : ARRAY[1:2, 1:2] OF STRING\nDECLARE b : ARRAY[1:2, 1:2] OF STRING\na[1, 2] <- \"x\"\nb <- a\na[1, 2] <- \"y\"\nOUTPUT b[1, 2], a[1, 2], b[2, 1]",
            "TYPE R\nDECLARE v : INTEGER\nENDTYPE\nDECLARE a, b : ARRAY[1:2] OF R\na[1].v <- 5\nb <- a\na[1].v <- 6\nOUTPUT b[1].v, a[1].v, b[2].v",
            "DECLARE a, b : ARRAY[1:3] OF INTEGER\nTYPE P = ^INTEGER\nDECLARE p : P\na[2] <- 5\np <- ^a[2]\nb[2] <- 9\na <- b\nOUTPUT p^\np^ <- 11\nOUTPUT a[2], b[2]",
            "DECLARE a, b : ARRAY[1:3] OF INTEGER\nPROCEDURE Q(BYREF e : INTEGER)\nb[1] <- 4\na <- b\ne <- e + 1\nOUTPUT e\nENDPROCEDURE\nCALL Q(a[1])\nOUTPUT a[1], b[1]",
            "DECLARE a : ARRAY[1:3] OF STRING\na[1] <- \"a string long enough to live on the heap, not inline\"\na[2] <- \"another string long enough to live on the heap\"\na[3] <- \"x\"\na <- a\nOUTPUT a[1]\nOUTPUT a[2]\nOUTPUT a[3]",
            "TYPE R\nDECLARE s : STRING\nDECLARE a : ARRAY[1:2] OF STRING\nENDTYPE\nDECLARE r : R\nr.s <- \"a string long enough to live on the heap, not inline\"\nr.a[1] <- \"another string long enough to live on the heap\"\nr <- r\nOUTPUT r.s, r.a[1]\nr.a <- r.a\nOUTPUT r.a[1]\nDECLARE t : ARRAY[1:2] OF R\nt[1] <- r\nt[1] <- t[1]\nOUTPUT t[1].s, t[1].a[1]\nt <- t\nOUTPUT t[1].s, t[1].a[1]\nPROCEDURE P(BYREF x : R, BYREF y : R)\nx <- y\nOUTPUT x.s, x.a[1]\nENDPROCEDURE\nCALL P(r, r)\nCALL P(t[1], t[1])",
            "DECLARE a : ARRAY[1:3] OF INTEGER\nDECLARE a : ARRAY[1:3] OF INTEGER", "DECLARE a : ARRAY[1:3] OF DATE\nOUTPUT a[1]",
            # whole-array assignment between array MEMBERS of the same name in two records / two elements of an array of records; members with different bounds or types
            "TYPE Box\nDECLARE cells : ARRAY[1:3] OF INTEGER\nENDTYPE\nDECLARE a, b : Box\na.cells[1] <- 1\na.cells[2] <- 2\na.cells[3] <- 3\nb.cells <- a.cells\nOUTPUT b.cells[1], b.cells[2], b.cells[3]\na.cells[2] <- 20\nb.cells[3] <- 30\nOUTPUT a.cells[2], a.cells[3], b.cells[2], b.cells[3]",
            "TYPE Box\nDECLARE cells : ARRAY[1:2] OF STRING\nENDTYPE\nDECLARE grid : ARRAY[1:2] OF Box\ngrid[1].cells[1] <- \"x\"\ngrid[1].cells[2] <- \"y\"\ngrid[2].cells <- grid[1].cells\nOUTPUT grid[2].cells[1], grid[2].cells[2]\ngrid[1].cells[1] <- \"z\"\nOUTPUT grid[2].cells[1], grid[1].cells[1]",
            "TYPE Box\nDECLARE cells : ARRAY[1:3] OF INTEGER\nENDTYPE\nTYPE Bag\nDECLARE cells : ARRAY[1:4] OF INTEGER\nENDTYPE\nDECLARE a : Box\nDECLARE b : Bag\nb.cells <- a.cells\nOUTPUT \"not reached\"",
            "TYPE Box\nDECLARE cells : ARRAY[1:3] OF INTEGER\nENDTYPE\nTYPE Bag\nDECLARE cells : ARRAY[1:3] OF REAL\nENDTYPE\nDECLARE a : Box\nDECLARE b : Bag\nb.cells <- a.cells\nOUTPUT \"not reached\"",
            "TYPE Box\nDECLARE cells : ARRAY[1:3] OF INTEGER\nENDTYPE\nDECLARE a : Box\nDECLARE cells : ARRAY[1:3] OF INTEGER\ncells[2] <- 7\na.cells <- cells\nOUTPUT a.cells[2]\ncells[2] <- 8\na.cells[2] <- 9\ncells <- a.cells\nOUTPUT cells[2], a.cells[2]",
            "TYPE Box\nDECLARE cells : ARRAY[1:2] OF INTEGER\nENDTYPE\nDECLARE a : Box\na.cells[1] <- 4\na.cells <- a.cells\nOUTPUT a.cells[1]",
        ]
        # arrays of records whose fields are (mostly) arrays: every field of every element survives element copies, whole-array copies and BYVAL passing
        for nsc, nar in [(0, 1), (0, 2), (0, 3), (1, 2), (1, 3), (2, 3), (2, 1), (3, 4)]:
            fs = ["DECLARE s%d : INTEGER" % k for k in range(nsc)] + ["DECLARE v%d : ARRAY[1:2] OF INTEGER" % k for k in range(nar)]
            if (nsc + nar) % 2: fs.reverse()
            setr = ["r.s%d <- %d" % (k, 500 + k) for k in range(nsc)] + ["r.v%d[%d] <- %d" % (k, j, 100 * (k + 1) + j) for k in range(nar) for j in (1, 2)]
            def dumpr(ref): return ["OUTPUT " + ", \" \", ".join(["%s.s%d" % (ref, k) for k in range(nsc)] + ["%s.v%d[%d]" % (ref, k, j) for k in range(nar) for j in (1, 2)])]
            shapes.append("\n".join(["TYPE Rr"] + fs + ["ENDTYPE", "DECLARE r : Rr", "DECLARE t, u : ARRAY[1:3] OF Rr"] + setr + ["t[2] <- r", "t[3] <- t[2]", "u <- t", "r.v0[1] <- - 1", "t[2].v%d[2] <- - 2" % (nar - 1)] + dumpr("t[2]") + dumpr("t[3]") + dumpr("u[2]") + dumpr("u[3]") + dumpr("u[1]")
                                    + ["PROCEDURE Show(BYVAL x : Rr)"] + dumpr("x") + ["ENDPROCEDURE", "CALL Show(u[3])", "FUNCTION Mk() RETURNS Rr", "RETURN t[3]", "ENDFUNCTION", "r <- Mk()"] + dumpr("r")))
        shapes += [
            "DECLARE z : ARRAY[1:2] OF INTEGER\nOUTPUT z[1], z[2]",
            "DECLARE grid : ARRAY[1:3, 1:3] OF INTEGER\nFUNCTION Touch() RETURNS INTEGER\nOUTPUT \"touch\"\ngrid[1, 1] <- 99\nRETURN 2\nENDFUNCTION\ngrid[1, 1] <- 7\nOUTPUT \"before\"\ngrid[4, Touch()] <- 5\nOUTPUT \"not reached\"",
            "DECLARE grid : ARRAY[1:3, 1:3] OF INTEGER\nFUNCTION Touch() RETURNS INTEGER\nOUTPUT \"touch\"\nRETURN 2\nENDFUNCTION\nOUTPUT \"before\"\nOUTPUT grid[0, Touch()]\nOUTPUT \"not reached\"",
            "DECLARE cube : ARRAY[1:2, 1:2, 1:2] OF INTEGER\nFUNCTION T(k : INTEGER) RETURNS INTEGER\nOUTPUT \"t\", k\nRETURN k\nENDFUNCTION\nOUTPUT \"before\"\ncube[T(1), T(3), T(2)] <- 5\nOUTPUT \"not reached\"",
            "DECLARE cube : ARRAY[1:2, 1:2, 1:2] OF INTEGER\nFUNCTION T(k : INTEGER) RETURNS INTEGER\nOUTPUT \"t\", k\nRETURN k\nENDFUNCTION\nOUTPUT \"before\"\ncube[T(1), T(2), T(TRUE)] <- 5\nOUTPUT \"not reached\"",
            "DECLARE Grid : ARRAY[1:3, 1:3] OF INTEGER\nFOR i <- 1 TO 3\nFOR j <- 1 TO 3\nGrid[i, j] <- i * 10 + j\nNEXT j\nNEXT i\nFUNCTION Walk(n : INTEGER) RETURNS INTEGER\nIF n = 0 THEN\nRETURN 0\nENDIF\nRETURN Grid[n, Walk(n - 1) MOD 3 + 1]\nENDFUNCTION\nOUTPUT Walk(1), \" \", Walk(2), \" \", Walk(3)",
            "DECLARE Marks : ARRAY[0:3, 0:3] OF INTEGER\nFUNCTION Mark(n : INTEGER) RETURNS INTEGER\nIF n > 0 THEN\nMarks[n, Mark(n - 1)] <- n\nENDIF\nRETURN n\nENDFUNCTION\nOUTPUT Mark(3)\nFOR i <- 0 TO 3\nOUTPUT Marks[i, 0], Marks[i, 1], Marks[i, 2], Marks[i, 3]\nNEXT i",
            "DECLARE Cube : ARRAY[1:2, 1:2, 1:2] OF INTEGER\nk <- 0\nFOR a <- 1 TO 2\nFOR b <- 1 TO 2\nFOR c <- 1 TO 2\nk <- k + 1\nCube[a, b, c] <- k\nNEXT c\nNEXT b\nNEXT a\nFUNCTION Dig(n : INTEGER) RETURNS INTEGER\nIF n = 0 THEN\nRETURN 1\nENDIF\nRETURN Cube[Dig(n - 1) MOD 2 + 1, n MOD 2 + 1, Dig(n - 1) MOD 2 + 1] MOD 2 + 1\nENDFUNCTION\nOUTPUT Dig(1), Dig(2), Dig(3), Dig(4)",
            "DECLARE V : ARRAY[1:4] OF INTEGER\nV[1] <- 2\nV[2] <- 3\nV[3] <- 4\nV[4] <- 1\nOUTPUT V[V[V[1]]], \" \", V[V[V[V[1]]]]\nV[V[1]] <- V[V[2]] + V[V[V[3]]]\nOUTPUT V[1], V[2], V[3], V[4]",
            "DECLARE M : ARRAY[1:2, 1:2] OF INTEGER\nM[1, 1] <- 2\nM[1, 2] <- 1\nM[2, 1] <- 1\nM[2, 2] <- 2\nOUTPUT M[M[1, 1], M[2, 1]], M[M[1, 2], M[M[1, 1], M[2, 2]]]\nM[M[1, 2], M[1, 1]] <- 9\nOUTPUT M[1, 1], M[1, 2], M[2, 1], M[2, 2]", "DECLARE a : ARRAY[- 1:1] OF CHAR\nOUTPUT ASC(a[0])",
            "DECLARE a : ARRAY[1:3] OF BOOLEAN\nOUTPUT a[1], a[3]", "DECLARE a : ARRAY[1:3] OF REAL\nOUTPUT a[2]", "DECLARE a : ARRAY[1:3] OF STRING\nOUTPUT \"[\", a[2], \"]\"",
            "i <- 2\nDECLARE a : ARRAY[i:i*2] OF INTEGER\na[i + 1] <- 3\nOUTPUT a[3], a[4]\nOUTPUT a[5]",
            # dynamic indices evaluated repeatedly by the same source expression
            "TYPE R\nDECLARE age : INTEGER\nDECLARE name : STRING\nENDTYPE\nDECLARE people : ARRAY[1:3] OF R\nFOR i <- 1 TO 3\npeople[i].age <- i * 10\npeople[i].name <- \"n\" & i\nNEXT i\nFOR i <- 1 TO 3\nOUTPUT people[i].age, \" \", people[i].name\nNEXT i",
            "DECLARE m : ARRAY[1:3, 0:2] OF INTEGER\nFOR i <- 1 TO 3\nFOR j <- 0 TO 2\nm[i, j] <- i * 10 + j\nNEXT j\nNEXT i\nFOR j <- 2 TO 0 STEP -1\nFOR i <- 3 TO 1 STEP -1\nOUTPUT m[i, j]\nNEXT i\nNEXT j",
            "DECLARE a : ARRAY[1:4] OF INTEGER\nPROCEDURE Inc(BYREF e : INTEGER)\ne <- e + 1\nENDPROCEDURE\nFOR k <- 1 TO 4\na[k] <- k\nCALL Inc(a[k])\nCALL Inc(a[5 - k])\nNEXT k\nOUTPUT a[1], a[2], a[3], a[4]",
            "TYPE R\nDECLARE v : ARRAY[1:2] OF INTEGER\nENDTYPE\nDECLARE rs : ARRAY[0:2] OF R\nFOR i <- 0 TO 2\nFOR j <- 1 TO 2\nrs[i].v[j] <- i * 2 + j\nNEXT j\nNEXT i\nFOR i <- 0 TO 2\nOUTPUT rs[i].v[1], rs[i].v[2]\nNEXT i",
            "TYPE P = ^INTEGER\nDECLARE a : ARRAY[1:3] OF INTEGER\nDECLARE p : P\nFOR i <- 1 TO 3\np <- ^a[i]\np^ <- i * 7\nNEXT i\nOUTPUT a[1], a[2], a[3]",
            "DECLARE a : ARRAY[1:3] OF INTEGER\nFUNCTION Get(i : INTEGER) RETURNS INTEGER\nRETURN a[i]\nENDFUNCTION\nFOR i <- 1 TO 3\na[i] <- i\nNEXT i\nOUTPUT Get(1), Get(2), Get(3)\ni <- 1\nWHILE i <= 3 DO\nOUTPUT a[i] + a[4 - i]\ni <- i + 1\nENDWHILE",
        ]
        yield ("shapes", [Case(id="C06-shape-%d" % i, prog=(s + "\n").encode()) for i, s in enumerate(shapes)])
        n = sizes(tier, 500, 10000)
        cs = []
        for i in range(n):
            g, lines = gen_program(seed, "C06", i, max_depth=2, arrays=True, err_rate=0.05)
            for _ in range(3): g.declare_array()
            cs.append(Case(id="C06-g%d" % i, prog=render(g.lines), meta=dict(features=sorted(g.features))))
        for ch in chunks(cs, 400):
            yield ("generator", ch)

    def c06_oracle(c, r, m):
        if "expect" in c.meta:
            if r.out.decode("latin1") != c.meta["expect"] or r.exit != 0:
                return ["write-all/read-all: expected %r..., got %r (exit %d)" % (c.meta["expect"][:60], r.out.decode("latin1")[:120], r.exit)]
        if c.meta.get("oob"):
            if not (r.exit == 1 and r.diags and r.diags[0].kind == "runtime"):
                return ["index one step outside the bounds was not reported as a runtime error (exit %d, out %r)" % (r.exit, r.out[-60:])]
            if b"not reached" in r.out: return ["execution continued after an out-of-bounds write"]
        return []

    C06 = dict(cases=c06_cases, model_is_oracle=("out", "exit", "files", "termination"), oracle=c06_oracle, builds=["normal", "san"], nontrivial=lambda c, r, m: True,
               rule="all 1-dimensional shapes with bounds in [-3,4], a sample (quick) / all 2-dimensional and a sample of 3-dimensional shapes: a distinct value written to every cell, "
                    "all read back (expected text computed by the harness), every index one step outside (all of them for 1- and, in the thorough tier, 2-dimensional shapes; a sample otherwise) probed in its own program; hand-built shapes for index type / count errors "
                    "and whole-array assignment (copy, independence, pointers and BYREF aliases to elements); generator programs; normal and sanitizer builds")

    def ptr_site_matrix():
        """p <- ^<place> for every (pointer base type, place type) pair where the place is reached as a BYREF formal, a BYVAL formal, an array element or a record field:
        accepted exactly for identical types; then p^ reads and writes the place"""
        PT = {"INTEGER": ("5", "6"), "REAL": ("2.5", "3.5"), "STRING": ('"s"', '"t"'), "CHAR": ("'c'", "'d'"), "BOOLEAN": ("TRUE", "FALSE"), "DATE": ("1/2/2003", "4/5/2006"), "Colour": ("Green", "Blue"), "Season": ("Winter", "Spring")}
        pre = ["TYPE Colour = (Red, Green, Blue)", "TYPE Season = (Spring, Summer, Autumn, Winter)"]
        out = []
        for tgt in PT:
            for vt in PT:
                for site in ("byref", "byval", "elem", "field", "byref-chain", "fn-byref"):
                    L = list(pre) + ["TYPE PX = ^%s" % tgt, "DECLARE p : PX", "DECLARE v : %s" % vt, "v <- %s" % PT[vt][0]]
                    use = ["OUTPUT \"bound\"", "OUTPUT p^", "p^ <- %s" % PT[tgt][1], "OUTPUT \"written\""]
                    if site == "byref": L += ["PROCEDURE Take(BYREF x : %s)" % vt, "p <- ^x"] + use + ["OUTPUT x", "ENDPROCEDURE", "CALL Take(v)", "OUTPUT v", "OUTPUT p^"]
                    elif site == "byref-chain": L += ["PROCEDURE Inner(BYREF y : %s)" % vt, "p <- ^y"] + use + ["ENDPROCEDURE", "PROCEDURE Take(BYREF x : %s)" % vt, "CALL Inner(x)", "OUTPUT x", "ENDPROCEDURE", "CALL Take(v)", "OUTPUT v", "OUTPUT p^"]
                    elif site == "fn-byref": L += ["FUNCTION Take(BYREF x : %s) RETURNS INTEGER" % vt, "p <- ^x"] + use + ["RETURN 1", "ENDFUNCTION", "d <- Take(v)", "OUTPUT v", "OUTPUT p^"]
                    elif site == "byval": L += ["PROCEDURE Take(x : %s)" % vt, "p <- ^x"] + use + ["OUTPUT x", "ENDPROCEDURE", "CALL Take(v)", "OUTPUT v", "OUTPUT p^"]
                    elif site == "elem": L += ["DECLARE arr : ARRAY[1:2] OF %s" % vt, "arr[2] <- v", "p <- ^arr[2]"] + use + ["OUTPUT arr[2]"]
                    elif site == "field": L += ["TYPE Hold\nDECLARE k : INTEGER\nDECLARE f : %s\nENDTYPE" % vt, "DECLARE h : Hold", "h.f <- v", "p <- ^h.f"] + use + ["OUTPUT h.f"]
                    out.append("\n".join(L))
        return out

    # ------------------------------------------------------------------ C07
    def rec_gen(r, levels, with_arrays=True):
        """returns (typedef lines, type name, list of leaf paths [(path text, prim type)])"""
        lines = []
        counter = [0]
        def mk(level):
            counter[0] += 1
            name = "R%d" % counter[0]
            body = []
            leaves = []
            for fi in range(r.randint(1, 3)):
                fn = "f%d_%d" % (counter[0], fi)
                kind = r.choice(["prim", "prim", "arr", "rec"] if level > 1 else ["prim", "prim", "arr"])
                if kind == "arr" and not with_arrays: kind = "prim"
                if kind == "prim":
                    t = r.choice(["INTEGER", "STRING", "REAL", "BOOLEAN", "CHAR", "DATE", "Hue", "Hue"])
                    body.append("DECLARE %s : %s" % (fn, t)); leaves.append(("." + fn, t))
                elif kind == "arr":
                    t = r.choice(["INTEGER", "STRING", "BOOLEAN", "Hue"])
                    lo = r.randint(0, 1); hi = lo + r.randint(0, 2)
                    body.append("DECLARE %s : ARRAY[%d:%d] OF %s" % (fn, lo, hi, t))
                    for k in range(lo, hi + 1): leaves.append((".%s[%d]" % (fn, k), t))
                else:
                    sub, subleaves = mk(level - 1)
                    if r.random() < 0.3:
                        body.append("DECLARE %s : ARRAY[1:2] OF %s" % (fn, sub))
                        for k in (1, 2):
                            for p, t in subleaves: leaves.append((".%s[%d]%s" % (fn, k, p), t))
                    else:
                        body.append("DECLARE %s : %s" % (fn, sub))
                        for p, t in subleaves: leaves.append(("." + fn + p, t))
            lines.extend(["TYPE " + name] + body + ["ENDTYPE"])
            return name, leaves
        top, leaves = mk(levels)
        return ["TYPE Hue = (Crimson, Amber, Teal, Violet)"] + lines, top, leaves

    VAL = {"INTEGER": lambda k: str(100 + k), "STRING": lambda k: '"s%d"' % k, "REAL": lambda k: "%d.5" % k, "BOOLEAN": lambda k: "TRUE" if k % 2 else "FALSE",
           "CHAR": lambda k: "'%s'" % "abcdefghij"[k % 10], "DATE": lambda k: "%d/1/2020" % (1 + k % 28),
           "Hue": lambda k: ["Amber", "Teal", "Violet", "Crimson"][k % 4]}

    def c07_cases(tier, seed):
        n = sizes(tier, 300, 6000)
        progs = []
        for i in range(n):
            r = rng_for(seed, "C07", i)
            tlines, top, leaves = rec_gen(r, r.randint(1, 3))
            def fill(v, base):
                return ["%s%s <- %s" % (v, p, VAL[t](base + k)) for k, (p, t) in enumerate(leaves)]
            def dump(v, tag):
                return ["OUTPUT \"%s%s=\", %s%s" % (tag, p, v, p) for p, t in leaves]
            for chan in ["assign", "byval", "return", "array", "field", "newvar", "dynidx", "dynfield", "byval-mixed-proc", "byval-mixed-fn", "byval-mixed-fn2"]:
                L = list(tlines) + ["DECLARE a : %s" % top, "DECLARE b : %s" % top] + dump("a", "fresh ") + fill("a", 0)
                if chan == "assign":
                    L += ["b <- a"]
                elif chan == "byval":
                    L += ["PROCEDURE P(x : %s)" % top] + dump("x", "in ") + fill("x", 50) + dump("x", "in2 ") + ["ENDPROCEDURE", "CALL P(a)", "b <- a"]
                elif chan == "byval-mixed-proc":
                    # a BYVAL record parameter next to BYREF ones (every mode keyword written out / inherited)
                    L += ["PROCEDURE P(BYREF n : INTEGER, BYVAL x : %s, BYREF m : INTEGER)" % top] + fill("x", 50) + dump("x", "in2 ") + ["n <- 1", "m <- 2", "ENDPROCEDURE", "cnt1 <- 0", "cnt2 <- 0", "CALL P(cnt1, a, cnt2)", "OUTPUT cnt1, cnt2", "b <- a"]
                elif chan == "byval-mixed-fn":
                    L += ["FUNCTION F(x : %s, BYREF n : INTEGER) RETURNS INTEGER" % top] + fill("x", 50) + dump("x", "in2 ") + ["n <- 1", "RETURN 5", "ENDFUNCTION", "cnt1 <- 0", "res <- F(a, cnt1)", "OUTPUT cnt1, res", "b <- a"]
                elif chan == "byval-mixed-fn2":
                    L += ["FUNCTION F(BYVAL x : %s, y : %s, BYREF n : INTEGER, BYVAL z : %s) RETURNS INTEGER" % (top, top, top)] + fill("x", 50) + fill("y", 55) + fill("z", 57) + ["n <- 1", "RETURN 5", "ENDFUNCTION", "cnt1 <- 0", "res <- F(a, a, cnt1, a)", "OUTPUT cnt1, res", "b <- a"]
                elif chan == "return":
                    L += ["FUNCTION F() RETURNS %s" % top, "RETURN a", "ENDFUNCTION", "b <- F()"]
                elif chan == "array":
                    L += ["DECLARE arr, arr2 : ARRAY[1:2] OF %s" % top, "arr[1] <- a", "arr2 <- arr", "b <- arr2[1]"] + fill("arr[1]", 70) + dump("arr2[1]", "arr2 ")
                elif chan == "field":
                    L += ["TYPE Wrap", "DECLARE inner : %s" % top, "DECLARE tag : INTEGER", "ENDTYPE", "DECLARE w, w2 : Wrap", "w.inner <- a", "w2 <- w", "b <- w2.inner"] + fill("w.inner", 60)
                elif chan == "newvar":
                    L += ["c <- a"] + fill("a", 30) + dump("c", "c ") + ["b <- c"]
                elif chan == "dynidx":
                    # a chain of element copies through indices computed at run time: the same source text addresses a different element in each pass
                    L += ["DECLARE arr : ARRAY[1:3] OF %s" % top, "arr[1] <- a", "FOR i <- 1 TO 2", "arr[i + 1] <- arr[i]"] + fill("arr[i + 1]", 80) + ["NEXT i", "FOR j <- 1 TO 3"] + dump("arr[j]", "dyn ") + ["NEXT j", "b <- arr[1]"]
                elif chan == "dynfield":
                    L += ["TYPE Wrap", "DECLARE items : ARRAY[1:3] OF %s" % top, "DECLARE tag : INTEGER", "ENDTYPE", "DECLARE w : Wrap", "w.items[1] <- a", "k <- 3", "WHILE k >= 2 DO", "w.items[k] <- w.items[1]"] + fill("w.items[k]", 90) + ["k <- k - 1", "ENDWHILE", "FOR j <- 1 TO 3"] + dump("w.items[j]", "dynf ") + ["NEXT j", "b <- w.items[1]"]
                L += dump("b", "copied ") + fill("a", 20) + dump("b", "after-src-change ") + fill("b", 40) + dump("a", "after-dst-change ")
                progs.append(Case(id="C07-%d-%s" % (i, chan), prog=("\n".join(L) + "\n").encode(), meta=dict(units=["%d/%s" % (i, chan)], features=["rec_copy"])))
        # records whose array fields have two and three dimensions (all cells distinct), through every copy channel
        for nd, (bounds, cells) in enumerate([("1:2, 1:3", ["1, 1", "1, 2", "1, 3", "2, 1", "2, 2", "2, 3"]), ("0:1, 1:2, 1:2", ["0, 1, 1", "0, 1, 2", "0, 2, 1", "0, 2, 2", "1, 1, 1", "1, 1, 2", "1, 2, 1", "1, 2, 2"]), ("1:3", ["1", "2", "3"])]):
            for et in ["INTEGER", "STRING"]:
                tl = ["TYPE Grid", "DECLARE tag : INTEGER", "DECLARE g : ARRAY[%s] OF %s" % (bounds, et), "DECLARE h : ARRAY[%s] OF %s" % (bounds, et), "ENDTYPE"]
                def fillg(v, base):
                    return ["%s.tag <- %d" % (v, base)] + ["%s.%s[%s] <- %s" % (v, fld, c, VAL[et](base + k + (50 if fld == "h" else 0))) for fld in ("g", "h") for k, c in enumerate(cells)]
                def dumpg(v, tag):
                    return ["OUTPUT \"%s \", %s.tag, \" \", %s" % (tag, v, ", \" \", ".join("%s.%s[%s]" % (v, fld, c) for fld in ("g", "h") for c in cells))]
                for chan in ["assign", "byval", "return", "array", "field", "newvar", "arrfield", "arrfield-same", "arrfield-elems"]:
                    L = tl + ["DECLARE a, b : Grid"] + fillg("a", 100)
                    if chan == "assign": L += ["b <- a"]
                    elif chan == "byval": L += ["PROCEDURE P(x : Grid)"] + dumpg("x", "in") + fillg("x", 300) + ["ENDPROCEDURE", "CALL P(a)", "b <- a"]
                    elif chan == "return": L += ["FUNCTION F() RETURNS Grid", "RETURN a", "ENDFUNCTION", "b <- F()"]
                    elif chan == "array": L += ["DECLARE arr, arr2 : ARRAY[1:2, 1:2] OF Grid", "arr[2, 1] <- a", "arr2 <- arr", "b <- arr2[2, 1]"] + dumpg("arr2[1, 2]", "untouched")
                    elif chan == "field": L += ["TYPE Wrap", "DECLARE inner : Grid", "ENDTYPE", "DECLARE w, w2 : Wrap", "w.inner <- a", "w2 <- w", "b <- w2.inner"]
                    elif chan == "newvar": L += ["c <- a"] + fillg("a", 400) + dumpg("c", "c") + ["b <- c"]
                    elif chan == "arrfield": L += ["b.g <- a.h", "b.h <- a.g", "b.tag <- a.tag"]
                    elif chan == "arrfield-same": L += ["b.g <- a.g", "b.h <- a.h", "b.tag <- a.tag"]       # the SAME member name in two different records
                    elif chan == "arrfield-elems": L += ["DECLARE shelf : ARRAY[1:2] OF Grid", "shelf[1] <- a", "shelf[2].g <- shelf[1].g", "shelf[2].h <- shelf[1].h", "shelf[2].tag <- shelf[1].tag", "b <- shelf[2]"]
                    L += dumpg("b", "copied") + fillg("a", 500) + dumpg("b", "after-src-change") + fillg("b", 600) + dumpg("a", "after-dst-change")
                    progs.append(Case(id="C07-grid-%d-%s-%s" % (nd, et, chan), prog=("\n".join(L) + "\n").encode(), meta=dict(units=["grid/%d/%s/%s" % (nd, et, chan)], features=["rec_copy"])))
        for ch in chunks(progs, 400):
            yield ("copy-channels", ch)
        shapes = ["TYPE R\nDECLARE f : INTEGER\nENDTYPE\nDECLARE r : R\ng <- 42\nOUTPUT r.g", "TYPE R\nDECLARE f : INTEGER\nENDTYPE\nDECLARE r : R\nr.g <- 1",
                  "TYPE R\nDECLARE f : INTEGER\nENDTYPE\nDECLARE r : R\nr.f <- \"x\"", "TYPE R\nDECLARE f : INTEGER\nENDTYPE\nDECLARE r : R\nOUTPUT r.f.g", "x <- 1\nOUTPUT x.f",
                  "TYPE R\nDECLARE f : INTEGER\nENDTYPE\nTYPE S\nDECLARE f : INTEGER\nENDTYPE\nDECLARE r : R\nDECLARE s : S\nr <- s",
                  "TYPE R\nDECLARE f : ARRAY[1:2] OF INTEGER\nENDTYPE\nDECLARE r : R\nOUTPUT r.f", "TYPE R\nDECLARE f : ARRAY[1:2] OF INTEGER\nENDTYPE\nDECLARE r : R\nOUTPUT r.f[3]",
                  "TYPE R\nDECLARE f : INTEGER\nDECLARE f : STRING\nENDTYPE\nDECLARE r : R", "TYPE R\nDECLARE f : Nope\nENDTYPE\nDECLARE r : R",
                  "TYPE R\n\nDECLARE f : INTEGER\n// comment\nDECLARE g : STRING\n\nENDTYPE\nDECLARE r : R\nOUTPUT r.f, \"[\", r.g, \"]\"",
                  "TYPE R\nDECLARE f : INTEGER\nENDTYPE\nDECLARE r : R\nOUTPUT r\nr", "PROCEDURE P\nTYPE L\nDECLARE v : INTEGER\nENDTYPE\nDECLARE x : L\nx.v <- 3\nOUTPUT x.v\nENDPROCEDURE\nCALL P\nCALL P"]
        yield ("shapes", [Case(id="C07-shape-%d" % i, prog=(s + "\n").encode()) for i, s in enumerate(shapes)])
        # record types whose array-member bounds are expressions over variables: two values of ONE record type with different extents, through every copy channel
        # (the model copies the whole value; see known_findings.json for what the interpreter does)
        dyn = []
        for (n1, n2) in [(2, 4), (4, 2), (1, 3), (3, 3)]:
            hi = max(n1, n2)
            tl = ["DECLARE n : INTEGER", "n <- %d" % n1, "TYPE DynRec", "DECLARE a : ARRAY[1:n] OF INTEGER", "DECLARE k : INTEGER", "ENDTYPE", "DECLARE x : DynRec", "n <- %d" % n2, "DECLARE y : DynRec"]
            tl += ["x.a[%d] <- %d" % (i, 90 + i) for i in range(1, n1 + 1)] + ["y.a[%d] <- %d" % (i, 10 + i) for i in range(1, n2 + 1)] + ["y.k <- 7"]
            def dumpd(v, tag, upto):
                return ["OUTPUT \"%s k=\", %s.k" % (tag, v)] + ["OUTPUT \"%s a[%d]=\", %s.a[%d]" % (tag, i, v, i) for i in range(1, upto + 1)]
            for chan in ["assign", "byval", "return", "element"]:
                L = list(tl)
                if chan == "assign": L += ["x <- y"] + dumpd("x", "copied", n2)
                elif chan == "byval": L += ["PROCEDURE P(r : DynRec)"] + dumpd("r", "copied", n2) + ["ENDPROCEDURE", "n <- %d" % n1, "CALL P(y)"]
                elif chan == "return": L += ["FUNCTION F() RETURNS DynRec", "RETURN y", "ENDFUNCTION", "x <- F()"] + dumpd("x", "copied", n2)
                elif chan == "element": L += ["n <- %d" % n1, "DECLARE arr : ARRAY[1:2] OF DynRec", "arr[2] <- y"] + dumpd("arr[2]", "copied", n2)
                dyn.append(Case(id="C07-dynbounds-%d-%d-%s" % (n1, n2, chan), prog=("\n".join(L) + "\n").encode(), meta=dict(units=["dyn/%d/%d/%s" % (n1, n2, chan)], features=["rec_copy", "rec_dynbounds"])))
        yield ("dynamic-bounds", dyn)

    C07 = dict(cases=c07_cases, model_is_oracle=("out", "exit", "files", "termination"), builds=["normal", "san"], nontrivial=lambda c, r, m: b"copied" in r.out or c.id.startswith("C07-shape"),
               rule="random record definitions with up to 3 nesting levels, scalar fields of every primitive type, array fields and arrays of records; for each, every copy channel "
                    "(assignment, BYVAL, function result, whole-array assignment / element copy, field-of-field, first assignment) followed by mutation of source and destination "
                    "and a dump of every leaf of both; non-trivial = distinct program in which the copy happened; normal and sanitizer builds")

    # ------------------------------------------------------------------ C08
    def c08_cases(tier, seed):
        lits = {"INTEGER": ("5", "6"), "NEGINT": ("- 5", "6"), "REAL": ("2.5", "3.5"), "BOOLEAN": ("TRUE", "FALSE"), "CHAR": ("'c'", "'d'"), "STRING": ('"str"', '"other"')}
        tyof = {"NEGINT": "INTEGER"}
        forms = ["assign", "for", "input", "read", "readfile", "getrecord", "byref", "deref", "byref-chain", "fn-byref", "redeclare", "reconst", "input-deref", "byref-input", "deref-copy", "reconst-same", "for-in-proc", "getrecord-byref",
                 # end-of-file reads, and writing statements that run FIRST on a variable and THEN on the constant (one source statement, two targets)
                 "caller-local-same-name", "caller-param-same-name",
                 "readfile-eof", "readfile-empty", "readfile-eof-byref", "reuse-assign", "reuse-input", "reuse-readfile", "reuse-getrecord", "reuse-deref-loop", "reuse-deref-proc", "reuse-for"]
        progs = []
        for lt, (v, w) in lits.items():
            ty = tyof.get(lt, lt)
            for form in forms:
                for eq in ("=", "<-"):
                    L = ["CONSTANT K %s %s" % (eq, v), "OUTPUT \"K=\", K"]
                    files = {}
                    if form == "assign": L += ["K <- %s" % w]
                    elif form == "for": L += ["FOR K <- 1 TO 3", "OUTPUT \"body\"", "NEXT K"]
                    elif form == "input": L += ["INPUT K"]
                    elif form == "read": L += ["READ K"]
                    elif form == "readfile":
                        files = {"in.txt": ("f", b"line1\nline2\n")}
                        L += ["OPENFILE \"in.txt\" FOR READ", "READFILE \"in.txt\", K"]
                    elif form == "getrecord":
                        L += ["DECLARE v : %s" % ty, "v <- %s" % w, "OPENFILE \"r.dat\" FOR RANDOM", "PUTRECORD \"r.dat\", v", "SEEK \"r.dat\", 1", "GETRECORD \"r.dat\", K"]
                    elif form == "byref": L += ["PROCEDURE P(BYREF x : %s)" % ty, "x <- %s" % w, "ENDPROCEDURE", "CALL P(K)"]
                    elif form == "byref-chain": L += ["PROCEDURE Q(BYREF y : %s)" % ty, "y <- %s" % w, "ENDPROCEDURE", "PROCEDURE P(BYREF x : %s)" % ty, "CALL Q(x)", "ENDPROCEDURE", "CALL P(K)"]
                    elif form == "fn-byref": L += ["FUNCTION F(BYREF x : %s) RETURNS INTEGER" % ty, "INPUT x", "RETURN 1", "ENDFUNCTION", "OUTPUT F(K)"]
                    elif form == "deref": L += ["TYPE PT = ^%s" % ty, "DECLARE p : PT", "p <- ^K", "OUTPUT p^", "p^ <- %s" % w]
                    elif form == "input-deref": L += ["TYPE PT = ^%s" % ty, "DECLARE p : PT", "p <- ^K", "INPUT p^"]
                    elif form == "byref-input": L += ["PROCEDURE P(BYREF x : %s)" % ty, "INPUT x", "ENDPROCEDURE", "CALL P(K)"]
                    elif form == "deref-copy": L += ["TYPE PT = ^%s" % ty, "DECLARE p, q : PT", "p <- ^K", "q <- p", "q^ <- %s" % w]
                    elif form == "reconst-same": L += ["CONSTANT K = %s" % v.replace("- ", "-") if False else "CONSTANT K = %s" % v]
                    elif form == "for-in-proc":
                        if ty != "INTEGER": continue
                        L += ["PROCEDURE P", "FOR K <- 1 TO 2", "OUTPUT \"body\"", "NEXT K", "ENDPROCEDURE", "CALL P"]
                    elif form == "getrecord-byref": L += ["DECLARE v : %s" % ty, "v <- %s" % w, "OPENFILE \"r.dat\" FOR RANDOM", "PUTRECORD \"r.dat\", v", "SEEK \"r.dat\", 1",
                                                          "PROCEDURE P(BYREF x : %s)" % ty, "GETRECORD \"r.dat\", x", "ENDPROCEDURE", "CALL P(K)"]
                    elif form == "redeclare": L += ["DECLARE K : %s" % ty]
                    elif form == "reconst": L += ["CONSTANT K = %s" % w]
                    elif form == "caller-local-same-name":
                        # the callee must see the GLOBAL constant, not the local of whoever called it
                        L += ["PROCEDURE Callee()", "OUTPUT \"callee sees \", K", "K <- %s" % w, "OUTPUT \"callee wrote\"", "ENDPROCEDURE", "PROCEDURE Caller()", "DECLARE K : %s" % ty, "K <- %s" % w, "OUTPUT \"caller local \", K", "CALL Callee()", "OUTPUT \"caller after \", K", "ENDPROCEDURE", "CALL Caller()"]
                    elif form == "caller-param-same-name":
                        L += ["FUNCTION Peek() RETURNS %s" % ty, "RETURN K", "ENDFUNCTION", "PROCEDURE Caller(K : %s)" % ty, "OUTPUT \"param \", K", "OUTPUT \"peek \", Peek()", "K <- Peek()", "OUTPUT \"param now \", K", "ENDPROCEDURE", "CALL Caller(%s)" % w, "K <- %s" % w]
                    elif form == "readfile-eof":
                        files = {"in.txt": ("f", b"line1\nline2\n")}
                        L += ["OPENFILE \"in.txt\" FOR READ", "READFILE \"in.txt\", s1", "READFILE \"in.txt\", s2", "OUTPUT EOF(\"in.txt\")", "READFILE \"in.txt\", K"]
                    elif form == "readfile-empty":
                        files = {"in.txt": ("f", b"")}
                        L += ["OPENFILE \"in.txt\" FOR READ", "OUTPUT EOF(\"in.txt\")", "READFILE \"in.txt\", K"]
                    elif form == "readfile-eof-byref":
                        files = {"in.txt": ("f", b"only\n")}
                        L += ["PROCEDURE P(BYREF x : %s)" % ty, "READFILE \"in.txt\", x", "ENDPROCEDURE", "OPENFILE \"in.txt\" FOR READ", "READFILE \"in.txt\", s1", "CALL P(K)"]
                    elif form.startswith("reuse-"):
                        L += ["DECLARE v : %s" % ty, "v <- %s" % w]
                        if form == "reuse-assign": L += ["PROCEDURE P(BYREF x : %s)" % ty, "x <- %s" % w, "ENDPROCEDURE", "CALL P(v)", "OUTPUT \"v=\", v", "CALL P(K)"]
                        elif form == "reuse-input": L += ["PROCEDURE P(BYREF x : %s)" % ty, "INPUT x", "ENDPROCEDURE", "CALL P(v)", "CALL P(K)"]
                        elif form == "reuse-readfile":
                            files = {"in.txt": ("f", b"line1\nline2\nline3\n")}
                            L += ["PROCEDURE P(BYREF x : %s)" % ty, "READFILE \"in.txt\", x", "ENDPROCEDURE", "OPENFILE \"in.txt\" FOR READ", "CALL P(v)", "CALL P(K)"]
                        elif form == "reuse-getrecord":
                            L += ["OPENFILE \"r.dat\" FOR RANDOM", "PUTRECORD \"r.dat\", v", "PROCEDURE P(BYREF x : %s)" % ty, "SEEK \"r.dat\", 1", "GETRECORD \"r.dat\", x", "ENDPROCEDURE", "CALL P(v)", "CALL P(K)"]
                        elif form == "reuse-deref-loop":
                            L += ["TYPE PT = ^%s" % ty, "DECLARE p : PT", "FOR pass <- 1 TO 2", "IF pass = 1 THEN", "p <- ^v", "ELSE", "p <- ^K", "ENDIF", "p^ <- %s" % w, "OUTPUT \"pass \", pass", "NEXT pass"]
                        elif form == "reuse-deref-proc":
                            L += ["TYPE PT = ^%s" % ty, "DECLARE p : PT", "PROCEDURE D(q : PT)", "q^ <- %s" % w, "ENDPROCEDURE", "p <- ^v", "CALL D(p)", "p <- ^K", "CALL D(p)"]
                        elif form == "reuse-for":
                            if ty != "INTEGER": continue
                            L += ["PROCEDURE P(BYREF x : INTEGER)", "FOR x <- 1 TO 2", "OUTPUT \"body\"", "NEXT x", "ENDPROCEDURE", "CALL P(v)", "CALL P(K)"]
                    L += ["OUTPUT \"not reached K=\", K"]
                    prog = ("\n".join(L) + "\n").encode()
                    progs.append(Case(id="C08-%s-%s-%s" % (lt, form, "eq" if eq == "=" else "as"), prog=prog, stdin=b"99\n88\n", files=dict(files),
                                      meta=dict(units=["%s/%s/%s" % (lt, form, eq)], const=v, kind="file")))
                    if eq == "=":
                        # same as a REPL history, the constant read back after the attempt
                        ents = L[:-1] + ["K", "OUTPUT \"K=\", K"]
                        progs.append(repl_case("C08r-%s-%s" % (lt, form), ents, files=dict(files), meta=dict(units=["repl/%s/%s" % (lt, form)], kind="repl", noshrink=True)))
        for ch in chunks(progs, 300):
            yield ("matrix", ch)
        n = sizes(tier, 400, 8000)
        cs = []
        for i in range(n):
            r = rng_for(seed, "C08", i)
            g = G(r, max_depth=2, err_rate=0.02)
            try:
                g.prelude()
                for k in range(3):
                    nm = g.fresh("K"); ty = r.choice(["INTEGER", "REAL", "BOOLEAN", "CHAR", "STRING"])
                    g.emitl(["CONSTANT", nm, "="] + g.lit(ty)); g.env.consts[nm] = ty
                for _ in range(r.randint(1, 3)): g.define_proc()
                g.define_func()
                g.block(2, r.randint(4, 10), scoped=False)
                # an attempted write to a constant somewhere
                cn, cty = r.choice(list(g.env.consts.items()))
                if r.random() < 0.5: g.emitl([cn, "<-"] + g.lit(cty))
                g.dump_state()
            except (RecursionError, KeyError, IndexError, TypeError, ValueError):
                continue
            cs.append(Case(id="C08-g%d" % i, prog=render(g.lines), stdin=b"1\n2\n", meta=dict(kind="gen")))
        for ch in chunks(cs, 400):
            yield ("generator", ch)

    def c08_oracle(c, r, m):
        k = c.meta.get("kind")
        if k == "file":
            if b"not reached" in r.out:
                return ["the statement writing to constant K did not stop the program: %r" % r.out[-80:]]
            if not (r.exit == 1 and r.diags):
                return ["the attempt to write to constant K was not reported (exit %d)" % r.exit]
        if k == "repl":
            # the constant is printed before the attempt and again at the end of the session: the two lines must be the same
            ks = [l for l in r.out.replace(b"\x1e", b"\n").split(b"\n") if l.lstrip(b"> .").startswith(b"K=")]
            ks = [l.lstrip(b"> .") for l in ks]
            if len(ks) >= 2 and ks[0] != ks[-1]:
                return ["constant K changed during the session: printed %r before and %r after the attempt" % (ks[0], ks[-1])]
            if len(ks) < 2:
                return ["the session did not reach the final print of constant K (stdout %r)" % r.out[-120:]]
        return []

    C08 = dict(cases=c08_cases, builds_quick=["normal", "san"], model_is_oracle=("out", "exit", "files", "termination"), oracle=c08_oracle, nontrivial=lambda c, r, m: True,
               rule="every literal type (INTEGER, negative INTEGER, REAL, BOOLEAN, CHAR, STRING) x every writing form (<-, FOR header, INPUT, READ, READFILE, GETRECORD, BYREF formal, "
                    "BYREF chain, BYREF formal of a function with INPUT, ^-dereference, re-DECLARE, re-CONSTANT) x both definition spellings, in file mode (must end in an error before "
                    "the sentinel) and as REPL histories with the constant echoed after the attempt (compared with the model); random programs threading constants through calls")

    # ------------------------------------------------------------------ C09
    C09_SHAPES = []
    def c09_shapes():
        if not C09_SHAPES:
            for _ in c09_cases("quick", 1):
                if C09_SHAPES: break
        return list(C09_SHAPES)
    global C09_SHAPES_FN
    C09_SHAPES_FN = c09_shapes

    def c09_cases(tier, seed):
        shapes = [
            # a global pointer left dangling at a local of a returned activation is re-pointed, by a later activation of the SAME routine, at that activation's local
            # (which the allocator may well place where the old one was): it must be live again; and the reverse order (dangling again after the second return)
            "TYPE P = ^INTEGER\nDECLARE g : P\nPROCEDURE Work(n : INTEGER)\nDECLARE loc : INTEGER\nDECLARE q : P\nloc <- n\nq <- ^loc\ng <- q\nOUTPUT \"in \", g^\ng^ <- g^ + 1\nOUTPUT loc\nENDPROCEDURE\nCALL Work(1)\nCALL Work(2)\nCALL Work(3)\nOUTPUT \"after\"\nOUTPUT g^",
            "TYPE P = ^INTEGER\nDECLARE g : P\nPROCEDURE Work(n : INTEGER)\nDECLARE loc : INTEGER\nloc <- n\ng <- ^loc\nOUTPUT \"in \", g^\nENDPROCEDURE\nFOR k <- 1 TO 4\nCALL Work(k)\nNEXT k\nOUTPUT g^",
            "TYPE P = ^STRING\nDECLARE g, h : P\nFUNCTION Work(s : STRING) RETURNS INTEGER\nDECLARE loc : STRING\nDECLARE q : P\nloc <- s & \"!\"\nq <- ^loc\nh <- g\ng <- q\nOUTPUT \"in \", g^\nRETURN LENGTH(g^)\nENDFUNCTION\nOUTPUT Work(\"a\")\nOUTPUT Work(\"bb\")\nOUTPUT Work(\"ccc\")\nOUTPUT h^",
            "TYPE P = ^INTEGER\nTYPE R\nDECLARE p : P\nENDTYPE\nDECLARE gr : R\nPROCEDURE Work(n : INTEGER)\nDECLARE loc : INTEGER\nDECLARE lr : R\nloc <- n\nlr.p <- ^loc\ngr <- lr\nOUTPUT \"in \", gr.p^\nENDPROCEDURE\nCALL Work(1)\nCALL Work(2)\nOUTPUT gr.p^",
            "TYPE P = ^INTEGER\nDECLARE g : P\nPROCEDURE Rec(n : INTEGER)\nDECLARE loc : INTEGER\nDECLARE q : P\nloc <- n * 10\nq <- ^loc\ng <- q\nIF n > 0 THEN\nCALL Rec(n - 1)\nENDIF\nOUTPUT \"back in \", n\ng <- q\nOUTPUT g^\nENDPROCEDURE\nCALL Rec(2)\nCALL Rec(1)",
            # ONE dereference site, several pointers, one activation: an array of pointers walked by a loop (read, write, read again), pointers in array-of-record fields, a pointer to a pointer that is re-pointed
            "TYPE P = ^INTEGER\nDECLARE ps : ARRAY[1:3] OF P\na <- 1\nb <- 2\nc <- 3\nps[1] <- ^a\nps[2] <- ^b\nps[3] <- ^c\nFOR i <- 1 TO 3\nOUTPUT ps[i]^\nps[i]^ <- ps[i]^ * 10\nNEXT i\nOUTPUT a, \" \", b, \" \", c\nFOR i <- 3 TO 1 STEP - 1\nOUTPUT ps[i]^\nNEXT i",
            "TYPE P = ^STRING\nTYPE Cell\nDECLARE p : P\nDECLARE k : INTEGER\nENDTYPE\nDECLARE cs : ARRAY[1:2] OF Cell\ns1 <- \"one\"\ns2 <- \"two\"\ncs[1].p <- ^s1\ncs[2].p <- ^s2\ni <- 1\nWHILE i <= 2 DO\nOUTPUT cs[i].p^\ncs[i].p^ <- cs[i].p^ & \"!\"\ni <- i + 1\nENDWHILE\nOUTPUT s1, \" \", s2",
            "TYPE P = ^INTEGER\nTYPE PP = ^P\nDECLARE p1, p2 : P\nDECLARE pp : PP\nx <- 1\ny <- 2\np1 <- ^x\np2 <- ^y\nFOR k <- 1 TO 2\nIF k = 1 THEN\npp <- ^p1\nELSE\npp <- ^p2\nENDIF\nOUTPUT pp^^\npp^^ <- pp^^ + 100\nNEXT k\nOUTPUT x, \" \", y",
            "TYPE P = ^INTEGER\nDECLARE ps : ARRAY[1:2, 1:2] OF P\na <- 1\nb <- 2\nc <- 3\nd <- 4\nps[1, 1] <- ^a\nps[1, 2] <- ^b\nps[2, 1] <- ^c\nps[2, 2] <- ^d\nFOR i <- 1 TO 2\nFOR j <- 1 TO 2\nps[i, j]^ <- ps[i, j]^ + 10 * i + j\nNEXT j\nNEXT i\nOUTPUT a, \" \", b, \" \", c, \" \", d",
            "TYPE P = ^INTEGER\nDECLARE ps : ARRAY[1:3] OF P\na <- 1\nb <- 2\nc <- 3\nps[1] <- ^a\nps[2] <- ^b\nps[3] <- ^c\nPROCEDURE Bump(k : INTEGER)\nps[k]^ <- ps[k]^ + 5\nOUTPUT ps[k]^\nENDPROCEDURE\nFOR i <- 1 TO 3\nCALL Bump(i)\nCALL Bump(4 - i)\nNEXT i\nOUTPUT a, \" \", b, \" \", c",
            # a pointer that HAS a live target is overwritten with a never-set pointer (every destination kind and channel): it must be unset afterwards
            "TYPE P = ^INTEGER\nDECLARE p, q : P\nx <- 5\np <- ^x\nOUTPUT p^\np <- q\nOUTPUT \"assigned\"\nOUTPUT p^\nOUTPUT \"not reached\"",
            "TYPE P = ^INTEGER\nDECLARE p, q : P\nx <- 5\np <- ^x\np <- q\np^ <- 9\nOUTPUT \"not reached \", x",
            "TYPE P = ^INTEGER\nDECLARE p, q : P\nPROCEDURE S(BYREF d : P, s : P)\nd <- s\nENDPROCEDURE\nx <- 5\np <- ^x\nCALL S(p, q)\nOUTPUT \"assigned\"\nOUTPUT p^",
            "TYPE P = ^INTEGER\nTYPE R\nDECLARE f : P\nDECLARE k : INTEGER\nENDTYPE\nDECLARE r : R\nDECLARE q : P\nx <- 5\nr.f <- ^x\nOUTPUT r.f^\nr.f <- q\nOUTPUT \"assigned\"\nOUTPUT r.f^",
            "TYPE P = ^INTEGER\nDECLARE a : ARRAY[1:2] OF P\nDECLARE q : P\nx <- 5\na[1] <- ^x\nOUTPUT a[1]^\na[1] <- q\nOUTPUT \"assigned\"\nOUTPUT a[1]^",
            "TYPE P = ^INTEGER\nDECLARE a : ARRAY[1:2] OF P\nx <- 5\na[1] <- ^x\na[1] <- a[2]\nOUTPUT \"assigned\"\nOUTPUT a[1]^",
            "TYPE P = ^INTEGER\nTYPE R\nDECLARE f : P\nENDTYPE\nDECLARE r, r2 : R\nx <- 5\nr.f <- ^x\nr <- r2\nOUTPUT \"assigned\"\nOUTPUT r.f^",
            "TYPE P = ^INTEGER\nDECLARE a, b : ARRAY[1:2] OF P\nx <- 5\na[2] <- ^x\na <- b\nOUTPUT \"assigned\"\nOUTPUT a[2]^",
            "TYPE P = ^INTEGER\nDECLARE p : P\nFUNCTION Unset() RETURNS P\nDECLARE loc : P\nRETURN loc\nENDFUNCTION\nx <- 5\np <- ^x\np <- Unset()\nOUTPUT \"assigned\"\nOUTPUT p^",
            "TYPE P = ^INTEGER\nDECLARE p, q : P\nx <- 5\ny <- 6\np <- ^x\nq <- ^y\np <- q\nOUTPUT p^\ny <- 7\nOUTPUT p^\nDECLARE u : P\nq <- u\nOUTPUT p^\nOUTPUT q^",
            "TYPE P = ^INTEGER\nDECLARE p, q : P\nx <- 5\np <- ^x\nOUTPUT p^\nx <- 6\nOUTPUT p^\np^ <- 7\nOUTPUT x\nq <- p\nq^ <- 8\nOUTPUT x, p^",
            "TYPE P = ^INTEGER\nDECLARE p : P\nOUTPUT p^", "TYPE P = ^INTEGER\nDECLARE p : P\np^ <- 1", "TYPE P = ^INTEGER\nDECLARE p : P\np",
            "TYPE P = ^INTEGER\nDECLARE p : P\ns <- \"a\"\np <- ^s", "TYPE P = ^INTEGER\nDECLARE p : P\nDECLARE a : ARRAY[1:2] OF INTEGER\np <- ^a", "x <- 1\nq <- 2\nq <- ^x",
            "TYPE P = ^INTEGER\nDECLARE p : P\nDECLARE a : ARRAY[1:3] OF INTEGER\na[2] <- 5\np <- ^a[2]\np^ <- p^ + 1\nOUTPUT a[1], a[2], a[3]",
            "TYPE R\nDECLARE f : INTEGER\nDECLARE g : STRING\nENDTYPE\nTYPE P = ^INTEGER\nDECLARE r : R\nDECLARE p : P\np <- ^r.f\np^ <- 9\nOUTPUT r.f\nr.f <- 10\nOUTPUT p^",
            "TYPE R\nDECLARE f : INTEGER\nENDTYPE\nTYPE PR = ^R\nDECLARE r, s : R\nDECLARE p : PR\nr.f <- 1\np <- ^r\ns <- p^\ns.f <- 2\nOUTPUT r.f, s.f\nr.f <- 3\nOUTPUT p^.f",
            # dead pointers: local of a returned activation
            "TYPE P = ^INTEGER\nDECLARE gp : P\nPROCEDURE Mk\nDECLARE loc : INTEGER\nloc <- 11\ngp <- ^loc\nOUTPUT gp^\nENDPROCEDURE\nCALL Mk\nOUTPUT \"after\"\nOUTPUT gp^",
            "TYPE P = ^INTEGER\nDECLARE gp : P\nPROCEDURE Mk\nDECLARE loc : INTEGER\nloc <- 11\ngp <- ^loc\nENDPROCEDURE\nPROCEDURE Sib\nDECLARE other : INTEGER\nother <- 77\nOUTPUT gp^\nENDPROCEDURE\nCALL Mk\nCALL Sib",
            "TYPE P = ^INTEGER\nDECLARE gp : P\nPROCEDURE Mk\nDECLARE loc : INTEGER\nloc <- 11\ngp <- ^loc\nENDPROCEDURE\nPROCEDURE Sib\nDECLARE other : INTEGER\nother <- 77\ngp^ <- 5\nOUTPUT other\nENDPROCEDURE\nCALL Mk\nCALL Sib",
            "TYPE P = ^INTEGER\nDECLARE gp : P\nPROCEDURE Mk(v : INTEGER)\ngp <- ^v\nENDPROCEDURE\nCALL Mk(4)\nCALL Mk(5)\nOUTPUT gp^",
            "TYPE P = ^INTEGER\nFUNCTION Mk() RETURNS P\nDECLARE loc : INTEGER\nDECLARE lp : P\nloc <- 3\nlp <- ^loc\nRETURN lp\nENDFUNCTION\nDECLARE gp : P\ngp <- Mk()\nOUTPUT gp^",
            "TYPE P = ^INTEGER\nDECLARE gp : P\nPROCEDURE Mk(BYREF v : INTEGER)\ngp <- ^v\nENDPROCEDURE\nx <- 4\nCALL Mk(x)\nx <- 9\nOUTPUT gp^",
            "TYPE P = ^INTEGER\nDECLARE gp : P\nPROCEDURE Use(q : P)\nq^ <- q^ + 1\nOUTPUT q^\nENDPROCEDURE\nPROCEDURE Outer\nDECLARE loc : INTEGER\nDECLARE lp : P\nloc <- 1\nlp <- ^loc\nCALL Use(lp)\nOUTPUT loc\nENDPROCEDURE\nCALL Outer",
            "TYPE P = ^INTEGER\nDECLARE gp : P\nPROCEDURE Rec(n : INTEGER)\nDECLARE loc : INTEGER\nloc <- n\nIF n = 3 THEN\ngp <- ^loc\nENDIF\nIF n > 0 THEN\nCALL Rec(n - 1)\nENDIF\nIF n >= 3 THEN\nOUTPUT gp^\nENDIF\nENDPROCEDURE\nCALL Rec(5)\nOUTPUT gp^",
            "TYPE P = ^INTEGER\nDECLARE gp : P\nPROCEDURE A\nDECLARE loc : INTEGER\nloc <- 1\ngp <- ^loc\nENDPROCEDURE\nPROCEDURE B(d : INTEGER)\nDECLARE pad : INTEGER\npad <- 100 + d\nIF d > 0 THEN\nCALL B(d - 1)\nELSE\nOUTPUT gp^\nENDIF\nENDPROCEDURE\nCALL A\nCALL B(3)",
            "TYPE P = ^INTEGER\nTYPE Q = ^STRING\nDECLARE p : P\nDECLARE q : Q\nx <- 1\np <- ^x\nq <- p",
            "TYPE P = ^INTEGER\nDECLARE gp : P\nFUNCTION Rd() RETURNS INTEGER\nRETURN gp^\nENDFUNCTION\nPROCEDURE A\nDECLARE loc : INTEGER\nloc <- 5\ngp <- ^loc\nOUTPUT \"function callee sees \", Rd()\nENDPROCEDURE\nCALL A",
            "TYPE P = ^INTEGER\nFUNCTION Rd(q : P) RETURNS INTEGER\nq^ <- q^ + 1\nRETURN q^\nENDFUNCTION\nFUNCTION Outer(v : INTEGER) RETURNS INTEGER\nDECLARE lp : P\nlp <- ^v\nRETURN Rd(lp) + Rd(lp)\nENDFUNCTION\nOUTPUT Outer(10)",
            "TYPE P = ^INTEGER\nDECLARE gp : P\nPROCEDURE Mk\nDECLARE loc : INTEGER\nloc <- 11\ngp <- ^loc\nENDPROCEDURE\nPROCEDURE Later\nOUTPUT gp^\nENDPROCEDURE\nCALL Mk\nCALL Later",
            "TYPE P = ^INTEGER\nDECLARE gp : P\nPROCEDURE Mk\nDECLARE loc : INTEGER\nloc <- 11\ngp <- ^loc\nENDPROCEDURE\nPROCEDURE Later\ngp^ <- 3\nOUTPUT \"wrote\"\nENDPROCEDURE\nCALL Mk\nCALL Later",
            "TYPE P = ^INTEGER\nDECLARE gp : P\nPROCEDURE Mk\nDECLARE loc : INTEGER\nloc <- 11\ngp <- ^loc\nENDPROCEDURE\nFUNCTION Later(a : INTEGER, b : INTEGER) RETURNS INTEGER\nDECLARE c, d : INTEGER\nc <- a\nd <- b\nRETURN gp^ + c + d\nENDFUNCTION\nCALL Mk\nCALL Mk\nOUTPUT Later(1, 2)",
            # targets inside nested records, arrays of records and array fields
            "TYPE In\nDECLARE x : INTEGER\nENDTYPE\nTYPE Out\nDECLARE inner : In\nDECLARE y : INTEGER\nENDTYPE\nTYPE P = ^INTEGER\nDECLARE r : Out\nDECLARE q : P\nr.inner.x <- 20\nq <- ^r.inner.x\nOUTPUT q^\nq^ <- q^ + 3\nOUTPUT r.inner.x, \" \", q^",
            "TYPE In\nDECLARE x : INTEGER\nENDTYPE\nTYPE Mid\nDECLARE inner : In\nENDTYPE\nTYPE Out\nDECLARE mid : Mid\nENDTYPE\nTYPE P = ^INTEGER\nDECLARE r : Out\nDECLARE q : P\nq <- ^r.mid.inner.x\nq^ <- 9\nOUTPUT r.mid.inner.x",
            "TYPE R\nDECLARE f : INTEGER\nENDTYPE\nTYPE P = ^INTEGER\nDECLARE a : ARRAY[1:3] OF R\nDECLARE q : P\nFOR i <- 1 TO 3\nq <- ^a[i].f\nq^ <- i * 3\nNEXT i\nOUTPUT a[1].f, a[2].f, a[3].f",
            "TYPE R\nDECLARE v : ARRAY[1:3] OF INTEGER\nENDTYPE\nTYPE P = ^INTEGER\nDECLARE r : R\nDECLARE q : P\nq <- ^r.v[2]\nq^ <- 8\nOUTPUT r.v[1], r.v[2], r.v[3]",
            "TYPE In\nDECLARE x : INTEGER\nENDTYPE\nTYPE Out\nDECLARE inner : In\nENDTYPE\nTYPE P = ^INTEGER\nDECLARE gq : P\nPROCEDURE Mk\nDECLARE loc : Out\nloc.inner.x <- 4\ngq <- ^loc.inner.x\nOUTPUT gq^\nENDPROCEDURE\nCALL Mk\nOUTPUT \"after\"\nOUTPUT gq^",
            "TYPE In\nDECLARE x : INTEGER\nENDTYPE\nTYPE Out\nDECLARE inner : In\nENDTYPE\nTYPE P = ^INTEGER\nDECLARE r, s : Out\nDECLARE q : P\nr.inner.x <- 1\ns <- r\nq <- ^s.inner.x\nq^ <- 5\nOUTPUT r.inner.x, s.inner.x\nFUNCTION Mk() RETURNS Out\nDECLARE t : Out\nt.inner.x <- 7\nRETURN t\nENDFUNCTION\ns <- Mk()\nq <- ^s.inner.x\nOUTPUT q^", "TYPE P = ^INTEGER\nDECLARE p : P\nx <- 1\np <- ^x\nOUTPUT p\np",
            "TYPE P = ^INTEGER\nDECLARE p : P\nCONSTANT K = 3\np <- ^K\nOUTPUT p^", "TYPE P = ^Nope", "TYPE P = ^INTEGER\nTYPE P = ^STRING",
        ]
        C09_SHAPES[:] = shapes
        yield ("shapes", [Case(id="C09-shape-%d" % i, prog=(s + "\n").encode()) for i, s in enumerate(shapes)])
        # pointer assignment: every (pointer target type, variable type) pair incl. user types of the same kind and pointers to pointers; p <- ^v is accepted
        # exactly for identical types, and then p^ reads / writes v
        PT = {"INTEGER": "5", "REAL": "2.5", "STRING": '"s"', "CHAR": "'c'", "BOOLEAN": "TRUE", "DATE": "1/2/2003", "Colour": "Green", "Season": "Winter", "RecA": None, "RecB": None,
              "IntPtr": None, "RealPtr": None}
        pre9 = ["TYPE Colour = (Red, Green, Blue)", "TYPE Season = (Spring, Summer, Autumn, Winter)", "TYPE RecA\nDECLARE f : INTEGER\nENDTYPE", "TYPE RecB\nDECLARE f : INTEGER\nENDTYPE",
                "TYPE IntPtr = ^INTEGER", "TYPE RealPtr = ^REAL", "DECLARE ti : INTEGER", "DECLARE tr : REAL", "ti <- 3", "tr <- 1.5"]
        pm = []
        for tgt in PT:
            for vt in PT:
                L = list(pre9) + ["TYPE PX = ^%s" % tgt, "DECLARE p, q : PX", "DECLARE v : %s" % vt, "DECLARE w : %s" % tgt]
                if PT[vt] is not None: L.append("v <- %s" % PT[vt])
                elif vt in ("RecA", "RecB"): L.append("v.f <- 9")
                elif vt == "IntPtr": L.append("v <- ^ti")
                elif vt == "RealPtr": L.append("v <- ^tr")
                L += ["OUTPUT \"before\"", "p <- ^v", "OUTPUT \"bound\"", "q <- p", "w <- q^", "OUTPUT \"copied\""]
                if tgt in ("RecA", "RecB"): L += ["OUTPUT w.f", "q^.f <- 4", "OUTPUT v.f"]
                elif tgt in ("IntPtr", "RealPtr"): L += ["OUTPUT w^", "OUTPUT q^^"]
                else: L += ["OUTPUT w", "OUTPUT p^ = w"]
                pm.append("\n".join(L))
        yield ("pointer-type-matrix", [Case(id="C09-pt-%d" % i, prog=(sp + "\n").encode(), meta=dict(units=["pt/%d" % i])) for i, sp in enumerate(pm)])
        yield ("pointer-site-matrix", [Case(id="C09-ps-%d" % i, prog=(sp + "\n").encode(), meta=dict(units=["ps/%d" % i])) for i, sp in enumerate(ptr_site_matrix())])
        # an alias (pointer / BYREF parameter) to a place inside a container stays an alias of that place when the container, or a part of it
        # on the way to the place, is assigned as a whole afterwards: the alias then reads the new contents and writes into them
        TY = ["TYPE In\nDECLARE x : INTEGER\nENDTYPE", "TYPE Mid\nDECLARE inner : In\nDECLARE tag : INTEGER\nENDTYPE",
              "TYPE Out\nDECLARE f : INTEGER\nDECLARE inner : In\nDECLARE mid : Mid\nDECLARE v : ARRAY[1:3] OF INTEGER\nDECLARE items : ARRAY[1:3] OF In\nENDTYPE", "TYPE PI = ^INTEGER",
              "DECLARE r, s : Out", "DECLARE a, b : ARRAY[1:3] OF Out", "DECLARE gp : PI",
              "FUNCTION Mk(k : INTEGER) RETURNS Out\nDECLARE t : Out\nt.f <- k\nt.inner.x <- k + 1\nt.mid.inner.x <- k + 2\nt.v[2] <- k + 3\nt.items[2].x <- k + 4\nRETURN t\nENDFUNCTION",
              "s <- Mk(100)", "r <- Mk(200)", "b[2] <- Mk(300)", "a[2] <- Mk(400)"]
        places = ["r.f", "r.inner.x", "r.mid.inner.x", "r.v[2]", "r.items[2].x", "a[2].f", "a[2].inner.x", "a[2].mid.inner.x", "a[2].v[2]", "a[2].items[2].x"]
        overwrites = {"r": ["r <- s", "r <- Mk(500)", "r.inner <- s.inner", "r.mid <- s.mid", "r.mid.inner <- s.inner", "r.v <- s.v", "r.items <- s.items", "r.items[2] <- s.inner", "r <- r", "r.items <- r.items"],
                      "a": ["a <- b", "a[2] <- b[2]", "a[2] <- s", "a[2] <- Mk(600)", "a[2].inner <- s.inner", "a[2].mid <- s.mid", "a[2].items <- s.items", "a[2].items[2] <- s.inner", "a <- a", "a[2] <- a[2]"]}
        def dump(root):
            return "OUTPUT %s.f, \" \", %s.inner.x, \" \", %s.mid.inner.x, \" \", %s.v[2], \" \", %s.items[2].x" % ((root,) * 5)
        al = []
        for pl in places:
            root = pl[0]
            for ow in overwrites[root]:
                # pointer
                al.append("\n".join(TY + ["gp <- ^%s" % pl, "OUTPUT gp^", ow, "OUTPUT gp^", "gp^ <- 77", dump("r" if root == "r" else "a[2]"), dump("s"), dump("b[2]")]))
                # BYREF parameter, the overwrite happens inside the callee
                al.append("\n".join(TY + ["PROCEDURE Q(BYREF y : INTEGER)", "OUTPUT y", ow, "OUTPUT y", "y <- 77", "ENDPROCEDURE", "CALL Q(%s)" % pl, dump("r" if root == "r" else "a[2]"), dump("s"), dump("b[2]")]))
        yield ("alias-overwrite", [Case(id="C09-alias-%d" % i, prog=(sp + "\n").encode(), meta=dict(units=["alias/%d" % i])) for i, sp in enumerate(al)])
        n = sizes(tier, 500, 12000)
        cs = []
        for i in range(n):
            r = rng_for(seed, "C09", i)
            cs.append(Case(id="C09-g%d" % i, prog=ptr_program(r), meta=dict(units=["g%d" % i])))
        for ch in chunks(cs, 400):
            yield ("generator", ch)

    def ptr_program(r):
        """pointer-centric generator: pointers to globals / locals / parameters / elements / fields, copied through assignments, parameters, results, globals,
        dereferenced in same activation, callee, caller after return, sibling call, deeper recursion"""
        L = ["TYPE PI = ^INTEGER", "TYPE PS = ^STRING", "TYPE R", "DECLARE f : INTEGER", "DECLARE s : STRING", "ENDTYPE",
             "TYPE Nest", "DECLARE inner : R", "DECLARE arr : ARRAY[1:2] OF INTEGER", "ENDTYPE", "DECLARE gn : Nest", "DECLARE gra : ARRAY[1:2] OF R",
             "gn.inner.f <- 31", "gn.arr[1] <- 41", "gn.arr[2] <- 42", "gra[1].f <- 51", "gra[2].f <- 52",
             "DECLARE g1, g2 : INTEGER", "DECLARE gs : STRING", "DECLARE ga : ARRAY[1:3] OF INTEGER", "DECLARE gr : R",
             "DECLARE gp, gq : PI", "DECLARE gps : PS", "g1 <- 1", "g2 <- 2", "gs <- \"gs\"", "ga[1] <- 11", "ga[2] <- 12", "ga[3] <- 13", "gr.f <- 21", "gr.s <- \"rs\""]
        targets_g = ["g1", "g2", "ga[1]", "ga[3]", "gr.f", "gn.inner.f", "gn.arr[2]", "gra[2].f", "gra[g1 MOD 2 + 1].f"]
        def use(p, tag):
            k = r.random()
            if k < 0.5: return ["OUTPUT \"%s \", %s^" % (tag, p)]
            if k < 0.8: return ["%s^ <- %s^ + 1" % (p, p), "OUTPUT \"%s+ \", %s^" % (tag, p)]
            return ["OUTPUT \"%s \", %s^ * 2" % (tag, p)]
        procs = []
        for k in range(r.randint(2, 4)):
            name = "Pr%d" % k
            mode = r.choice(["", "BYREF ", "BYVAL "])
            body = ["PROCEDURE %s(%sv : INTEGER, d : INTEGER)" % (name, mode), "DECLARE loc : INTEGER", "DECLARE lp : PI", "loc <- v * 10 + d"]
            for _ in range(r.randint(1, 4)):
                c = r.random()
                if c < 0.12: body += ["lp <- ^loc"] + use("lp", name + "-lp")
                elif c < 0.25: body += ["gp <- ^loc", "gq <- ^loc", "OUTPUT \"%s peek \", Peek(%d), \" \", PeekDeep(%d)" % (name, r.randint(0, 3), r.randint(0, 2))]
                elif c < 0.4: body += ["gp <- ^loc"]
                elif c < 0.5: body += ["gp <- ^v"]
                elif c < 0.6: body += ["gq <- gp"]
                elif c < 0.8: body += use(r.choice(["gp", "gq"]), name + "-g")
                elif c < 0.9 and k > 0: body += ["IF d > 0 THEN", "CALL Pr%d(loc, d - 1)" % r.randint(0, k), "ENDIF"]
                else: body += ["gp <- ^%s" % r.choice(targets_g)]
            body += ["OUTPUT \"%s loc \", loc" % name, "ENDPROCEDURE"]
            procs.append(name); L += body
        L += ["FUNCTION Peek(d : INTEGER) RETURNS INTEGER", "RETURN gp^ + d", "ENDFUNCTION",
              "FUNCTION PeekDeep(d : INTEGER) RETURNS INTEGER", "IF d > 0 THEN", "RETURN PeekDeep(d - 1)", "ENDIF", "gq^ <- gq^ + 1", "RETURN gq^", "ENDFUNCTION"]
        L += ["FUNCTION MkP(which : INTEGER) RETURNS PI", "DECLARE fl : INTEGER", "DECLARE fp : PI", "fl <- 5", "IF which = 1 THEN", "fp <- ^fl", "ELSE", "fp <- ^g2", "ENDIF", "RETURN fp", "ENDFUNCTION"]
        for _ in range(r.randint(4, 12)):
            c = r.random()
            if c < 0.2: L += ["gp <- ^%s" % r.choice(targets_g)]
            elif c < 0.3: L += ["gq <- gp"]
            elif c < 0.55: L += ["CALL %s(%s, %d)" % (r.choice(procs), r.choice(["g1", "g2", "ga[2]"]), r.randint(0, 2))]
            elif c < 0.65: L += ["gq <- MkP(%d)" % r.randint(1, 2)]
            elif c < 0.9: L += use(r.choice(["gp", "gq"]), "main")
            else: L += ["g1 <- g1 + 100", "ga[1] <- ga[1] + 100"]
        L += ["OUTPUT g1, \" \", g2, \" \", ga[1], \" \", ga[2], \" \", ga[3], \" \", gr.f, \" \", gn.inner.f, \" \", gn.arr[1], \" \", gn.arr[2], \" \", gra[1].f, \" \", gra[2].f"]
        return ("\n".join(L) + "\n").encode()

    C09 = dict(cases=c09_cases, model_is_oracle=("out", "exit", "files", "termination"), builds=["normal", "san"], nontrivial=lambda c, r, m: True,
               rule="hand-built alias / unset / dead-pointer shapes (callee's local after return, sibling call reusing the freed activation, parameter of a returned call, "
                    "pointer returned from a function, deeper recursion) and a pointer-centric random generator (pointers to globals, locals, BYVAL/BYREF parameters, elements, "
                    "fields, copied through assignments, parameters, results and globals, dereferenced in every later activation pattern); the normal build, the sanitizer build "
                    "and the model must agree; any sanitizer report or signal is a violation",
               trusted=["address reuse is allocator dependent: agreement of a normal-build run proves nothing by itself; the theorem is about activation ids, the tie is this differential on two builds"])

    return {"C05": C05, "C06": C06, "C07": C07, "C08": C08, "C09": C09}
