#!/usr/bin/env python3
"""Lean side of a check: build, hygiene scan, axiom audit, (thorough) leanchecker."""
import os, re, subprocess, sys, tempfile, json, time
VERIF = os.path.dirname(os.path.dirname(os.path.abspath(__file__)))
LEAN = os.path.join(VERIF, "lean")
ALLOWED_AXIOMS = {"propext", "Classical.choice", "Quot.sound"}
FORBIDDEN = re.compile(r"\b(sorry|admit|native_decide|bv_decide|implemented_by|unsafe)\b|^\s*axiom\s|maxHeartbeats\s+0\b", re.M)

def strip_comments(src):
    # block comments (nested) and line comments
    out = []; i = 0; depth = 0; n = len(src)
    while i < n:
        if src.startswith("/-", i): depth += 1; i += 2; continue
        if depth and src.startswith("-/", i): depth -= 1; i += 2; continue
        if depth: i += 1; continue
        if src.startswith("--", i):
            j = src.find("\n", i); i = n if j < 0 else j; continue
        if src[i] == '"':
            j = i + 1
            while j < n and src[j] != '"':
                j += 2 if src[j] == "\\" else 1
            out.append('""'); i = j + 1; continue
        out.append(src[i]); i += 1
    return "".join(out)

def lib_files():
    fs = []
    for sub in ("PseudoModel", "PseudoProofs", "Properties", "Generated"):
        d = os.path.join(LEAN, sub)
        if not os.path.isdir(d): continue
        for root, _, files in os.walk(d):
            for f in files:
                if f.endswith(".lean"): fs.append(os.path.join(root, f))
    fs.append(os.path.join(LEAN, "Main.lean"))
    return sorted(fs)

def hygiene():
    bad = []
    for p in lib_files():
        try: src = open(p).read()
        except FileNotFoundError: continue
        code = strip_comments(src)
        for m in FORBIDDEN.finditer(code):
            bad.append("%s: %s" % (os.path.relpath(p, LEAN), m.group(0).strip()))
    return bad

def modules_of(pid):
    """Properties/<pid>*.lean (e.g. C02.lean, C02Parse.lean)"""
    d = os.path.join(LEAN, "Properties")
    out = []
    # only files that are part of the committed framework (work in progress that is git-ignored is not an obligation yet)
    try:
        ig = subprocess.run(["git", "-C", VERIF, "ls-files", "--others", "--ignored", "--exclude-standard", "lean/Properties"], capture_output=True, text=True)
        ignored = {os.path.basename(x) for x in ig.stdout.split() } if ig.returncode == 0 else set()
    except Exception:
        ignored = set()
    for f in sorted(os.listdir(d)):
        if f in ignored: continue
        if f.endswith(".lean") and re.match(r"^%s([A-Z][A-Za-z]*)?\.lean$" % pid, f):
            out.append(f[:-5])
    return out

def theorems_of(pid):
    """(module, fully qualified name) of every theorem named <pid>_… in the property's modules; namespaces are tracked
    (`namespace X` … `end X`), so theorems in nested namespaces get their full name"""
    res = []
    for m in modules_of(pid):
        src = open(os.path.join(LEAN, "Properties", m + ".lean")).read()
        code = strip_comments(src)
        stack = []
        for line in code.split("\n"):
            mm = re.match(r"^\s*namespace\s+([A-Za-z0-9_.]+)", line)
            if mm:
                stack.append(mm.group(1)); continue
            mm = re.match(r"^\s*end\s+([A-Za-z0-9_.]+)\s*$", line)
            if mm and stack and stack[-1] == mm.group(1):
                stack.pop(); continue
            mm = re.match(r"^\s*(?:@\[[^\]]*\]\s*)?(?:private\s+|protected\s+)?theorem\s+([A-Za-z0-9_.']+)", line)
            if mm:
                t = mm.group(1)
                if t.split(".")[-1].startswith(pid + "_") or t.startswith(pid + "_"):
                    res.append((m, ".".join(stack + [t])))
    return res

def run(pid, thorough=False):
    res = dict(obligations=0, discharged=0, theorems=[], axioms={}, broken=[], log="", tables={},
               checker_cmd="cd /verif/lean && lake build && lake env lean <audit: #print axioms of every theorem of Properties.%s>" % pid,
               trusted_base=["Lean 4.33.0 kernel and lake", "axioms allowed: propext, Classical.choice, Quot.sound (audited per theorem on every run)",
                             "the statements in lean/Properties/%s.lean being faithful renderings of the property" % pid,
                             "Lean compiler: compiled model definitions behave as their kernel definitions (Float primitives included)"])
    # tables regenerated from the source (tie II)
    try:
        import extract
        res["tables"] = extract.regenerate()
    except Exception as e:
        res["tables"] = {"translator": "unavailable (%s)" % (str(e)[:200],)}
    t0 = time.time()
    p = subprocess.run(["lake", "build"], cwd=LEAN, capture_output=True, text=True)
    res["log"] = (p.stdout + p.stderr)[-8000:]
    full_ok = p.returncode == 0
    thm_pairs = theorems_of(pid)
    thms = [t for _, t in thm_pairs]
    mods = modules_of(pid)
    res["theorems"] = thms
    res["modules"] = mods
    res["obligations"] = len(thms) + 1   # + the table equalities / model build
    if not full_ok:
        # which part is broken?  the property module itself, or something else
        q = subprocess.run(["lake", "build"] + ["Properties." + m for m in mods], cwd=LEAN, capture_output=True, text=True)
        d = subprocess.run(["lake", "build", "drv"], cwd=LEAN, capture_output=True, text=True)
        if q.returncode != 0:
            m = re.findall(r"error: ([^\n]*)", q.stdout + q.stderr)
            res["broken"].append("lake build Properties.%s fails: %s" % (pid, "; ".join(m[:4])))
            res["log"] = (q.stdout + q.stderr)[-8000:]
        if d.returncode != 0:
            res["broken"].append("the model driver does not build")
        if q.returncode == 0 and d.returncode == 0:
            full_ok = True   # some other property's module is broken, not ours
    # tie II: the table equalities this property depends on
    TABLES = {"TablesKeywords": ["C01", "C10", "C11", "C20"], "TablesTokens": ["C01", "C10", "C11"], "TablesLevels": ["C01", "C02"],
              "TablesBlocks": ["C01", "C03", "C11"], "TablesBuiltins": ["C01", "C17"], "TablesPedantic": ["C20"]}
    res["table_theorems"] = {}
    for tmod, pids in TABLES.items():
        if pid not in pids: continue
        res["obligations"] += 1
        tb = subprocess.run(["lake", "build", "PseudoProofs." + tmod], cwd=LEAN, capture_output=True, text=True)
        if tb.returncode == 0:
            discharged_tables = res.setdefault("_tables_ok", 0) + 1; res["_tables_ok"] = discharged_tables
            res["table_theorems"][tmod] = "holds"
        else:
            m = re.findall(r"error: ([^\n]*)", tb.stdout + tb.stderr)
            res["table_theorems"][tmod] = "FAILS"
            res["broken"].append("table regenerated from the C++ sources disagrees with the model: PseudoProofs.%s does not check (%s)" % (tmod, "; ".join(m[:2])[:300]))
    bad = hygiene()
    if bad:
        res["broken"].append("forbidden constructs in the Lean library: " + "; ".join(bad[:5]))
    if not thms:
        res["broken"].append("no theorems found in Properties/%s.lean" % pid)
    discharged = 0
    if full_ok and thms:
        out = ""
        for m in mods:
            mt = [t for mm, t in thm_pairs if mm == m]
            if not mt: continue
            with tempfile.NamedTemporaryFile("w", suffix=".lean", delete=False, dir=os.environ.get("VERIF_SCRATCH", "/tmp")) as f:
                f.write("import Properties.%s\n" % m)
                for t in mt:
                    f.write("#print axioms %s\n" % t)
                tmp = f.name
            try:
                a = subprocess.run(["lake", "env", "lean", tmp], cwd=LEAN, capture_output=True, text=True)
            finally:
                os.unlink(tmp)
            out += a.stdout + a.stderr
        # parse "'name' depends on axioms: [a, b]" / "'name' does not depend on any axioms"
        for t in thms:
            m = re.search(r"'%s' depends on axioms: \[([^\]]*)\]" % re.escape(t), out, re.S)
            if m:
                axs = [x.strip() for x in m.group(1).replace("\n", " ").split(",") if x.strip()]
            elif re.search(r"'%s' does not depend on any axioms" % re.escape(t), out):
                axs = []
            else:
                res["broken"].append("axiom audit of %s produced no result: %s" % (t, out[-300:]))
                continue
            res["axioms"][t] = axs
            extra = [x for x in axs if x not in ALLOWED_AXIOMS]
            if extra:
                res["broken"].append("theorem %s depends on axioms %s" % (t, extra))
            else:
                discharged += 1
    if full_ok and not bad:
        discharged += 1
    res["discharged"] = discharged + res.pop("_tables_ok", 0)
    if thorough and full_ok:
        res["leanchecker"] = {}
        for m in mods:
            c = subprocess.run(["lake", "env", "leanchecker", "Properties." + m], cwd=LEAN, capture_output=True, text=True)
            res["leanchecker"][m] = "ok" if c.returncode == 0 else (c.stdout + c.stderr)[-500:]
            if c.returncode != 0:
                res["broken"].append("leanchecker rejects Properties.%s" % m)
        res["checker_cmd"] += " && lake env leanchecker Properties.%s" % pid
    res["lean_wall_s"] = round(time.time() - t0, 1)
    return res

if __name__ == "__main__":
    print(json.dumps(run(sys.argv[1], thorough=len(sys.argv) > 2), indent=1)[:3000])
